#!/bin/bash
# usage: try_seed.sh <patch.diff> <ID> [<ID> ...]   -- apply a seeded change to /repo, run the checks, undo it
set -u
P=$1; shift
cd /repo || exit 2
git diff --quiet || { echo "/repo is dirty"; exit 2; }
git apply "$P" || { echo "patch does not apply"; exit 2; }
rm -rf /var/tmp/gv/evidence.bak; cp -r /verif/evidence /var/tmp/gv/evidence.bak   # evidence of runs on a changed tree must not be kept
for id in "$@"; do
  echo "=== bin/check $id with $(basename $(dirname $P))/$(basename $P)"
  (cd /verif && bin/check $id 2>&1 | grep -v "^job ")
  echo "exit=$?"
done
git checkout -- .
rm -rf /verif/evidence; cp -r /var/tmp/gv/evidence.bak /verif/evidence ; git status --short | head -3
