#!/usr/bin/env python3
"""Token-level mutants of the functions under contract (the classic slips named in properties.jsonl / DESIGN.md).
Each is applied to a SCRATCH COPY of /repo/src (never to /repo) and the relevant check is run with GRAM_REPO
pointing at the copy.  Expected: every mutant ends in exit 1 (VIOLATION); exit 2 = undecided (a miss, reported);
exit 0 = survived.  usage: tools/mutants.py [ids...]      writes tools/mutants_result.json"""
import json, os, shutil, subprocess, sys, tempfile

V = os.path.dirname(os.path.dirname(os.path.abspath(__file__)))
M = [
 # id, property, file, old, new, occurrence (1-based)
 ("m01","C11","src/de_bruijn.rs","Rc::new(signed_shift(codomain, cutoff + 1, amount)?),","Rc::new(signed_shift(codomain, cutoff + 2, amount)?),",1),
 ("m02","C11","src/de_bruijn.rs","let new_cutoff = cutoff + definitions.len();","let new_cutoff = cutoff + 1;",1),
 ("m03","C11","src/de_bruijn.rs","Rc::new(signed_shift(body, new_cutoff, amount)?),","Rc::new(signed_shift(body, cutoff, amount)?),",1),
 ("m04","C11","src/de_bruijn.rs","if new_index >= isize::try_from(cutoff).unwrap() {","if new_index > isize::try_from(cutoff).unwrap() {",1),
 ("m05","C11","src/de_bruijn.rs","            if *index >= cutoff {","            if *index > cutoff {",1),
 ("m06","C11","src/de_bruijn.rs","if *index > index_to_replace {","if *index >= index_to_replace {",1),
 ("m07","C11","src/de_bruijn.rs","                    body,\n                    index_to_replace + 1,","                    body,\n                    index_to_replace,",1),
 ("m08","C11","src/de_bruijn.rs","                    codomain,\n                    index_to_replace + 1,\n                    term_to_insert,\n                    shift_amount + 1,","                    codomain,\n                    index_to_replace + 1,\n                    term_to_insert,\n                    shift_amount,",1),
 ("m09","C11","src/de_bruijn.rs","let new_shift_amount = shift_amount + definitions.len();","let new_shift_amount = shift_amount + 1;",1),
 ("m10","C11","src/de_bruijn.rs","unsigned_shift(term_to_insert, 0, shift_amount)","unsigned_shift(term_to_insert, 1, shift_amount)",1),
 ("m11","C11","src/de_bruijn.rs","            variant: Difference(\n                Rc::new(signed_shift(term1, cutoff, amount)?),\n                Rc::new(signed_shift(term2, cutoff, amount)?),","            variant: Difference(\n                Rc::new(signed_shift(term2, cutoff, amount)?),\n                Rc::new(signed_shift(term1, cutoff, amount)?),",1),
 ("m12","C11","src/term.rs","variables.insert(index - cutoff);","variables.insert(*index);",1),
 ("m13","C11","src/term.rs","free_variables(body, cutoff + 1, variables);","free_variables(body, cutoff, variables);",1),
 ("m14","C11","src/term.rs","free_variables(else_branch, cutoff, variables);","free_variables(then_branch, cutoff, variables);",1),
 ("m15","C11","src/term.rs","            free_variables(body, cutoff + definitions.len(), variables);","            free_variables(body, cutoff, variables);",1),
 ("m16","C02","src/evaluator.rs","variant: IntegerLiteral(integer1 - integer2),","variant: IntegerLiteral(integer2 - integer1),",1),
 ("m17","C02","src/evaluator.rs","variant: if integer1 <= integer2 { True } else { False },","variant: if integer1 < integer2 { True } else { False },",1),
 ("m18","C02","src/evaluator.rs","                True => Some((**then_branch).clone()),\n                False => Some((**else_branch).clone()),","                True => Some((**else_branch).clone()),\n                False => Some((**then_branch).clone()),",1),
 ("m19","C02","src/evaluator.rs","            // Ensure the left subterm is a value.\n            if !is_value(term1) {","            // Ensure the left subterm is a value.\n            if is_value(term1) {",3),
 ("m20","C02","src/evaluator.rs","let index_plus_one = index + 1;","let index_plus_one = index;",1),
 ("m21","C02","src/evaluator.rs","                    .iter()\n                    .skip(1)\n                    .map(|(variable, annotation, definition)| {","                    .iter()\n                    .skip(0)\n                    .map(|(variable, annotation, definition)| {",1),
 ("m22","C02","src/evaluator.rs","let substituted_body = open(body, index, &unfolded_definition, 0);","let substituted_body = open(body, index_plus_one, &unfolded_definition, 0);",1),
 ("m23","C02","src/evaluator.rs","Some(open(body, 0, argument, 0))","Some(open(body, 1, argument, 0))",1),
 ("m24","C02","src/evaluator.rs","integer1.checked_div(integer2)","integer2.checked_div(integer1)",1),
 ("m25","C02","src/evaluator.rs","variant: IntegerLiteral(-integer),","variant: IntegerLiteral(integer.clone()),",1),
 ("m26","C02","src/evaluator.rs","    if is_value(&term) {","    if !is_value(&term) {",1),
 ("m27","C02","src/evaluator.rs","                                .chain(definitions.iter().skip(1).map(","                                .chain(definitions.iter().skip(0).map(",1),
 ("m28","C02","src/evaluator.rs","                                    &unsigned_shift(annotation, 0, 1),\n                                    index_plus_one,","                                    &unsigned_shift(annotation, 0, 1),\n                                    index,",1),
 ("m29","C07","src/parser.rs","            return if argument.group {","            return if !argument.group {",1),
 ("m30","C07","src/parser.rs","                            reassociate_products_and_quotients(None, term1)\n                        },\n                        ProductOrQuotient::Product,","                            reassociate_products_and_quotients(None, term1)\n                        },\n                        ProductOrQuotient::Quotient,",1),
 ("m31","C07","src/parser.rs","            variant: Variant::Negation(Rc::new(reassociate_products_and_quotients(None, subterm))),","            variant: Variant::Negation(Rc::new(reassociate_applications(None, subterm))),",1),
 ("m32","C07","src/parser.rs","                        variant: Variant::Application(\n                            Rc::new(reassociate_applications(None, applicand)),\n                            Rc::new(reassociate_applications(None, argument)),","                        variant: Variant::Application(\n                            Rc::new(reassociate_applications(None, argument)),\n                            Rc::new(reassociate_applications(None, applicand)),",1),
 ("m33","C07","src/parser.rs","                            variant: Variant::Application(\n                                Rc::new(acc),\n                                Rc::new(reassociate_applications(None, applicand)),","                            variant: Variant::Application(\n                                Rc::new(reassociate_applications(None, applicand)),\n                                Rc::new(acc),",1),
 ("m34","C07","src/parser.rs","                SumOrDifference::Sum => Variant::Sum(Rc::new(acc), Rc::new(reduced)),","                SumOrDifference::Sum => Variant::Difference(Rc::new(acc), Rc::new(reduced)),",1),
]

def nth_replace(s, old, new, n):
    idx = -1
    for _ in range(n):
        idx = s.find(old, idx + 1)
        if idx < 0:
            return None
    return s[:idx] + new + s[idx + len(old):]

def main():
    want = set(sys.argv[1:])
    ev_bak = tempfile.mkdtemp(prefix="gramev.", dir="/var/tmp")
    shutil.rmtree(ev_bak); shutil.copytree(os.path.join(V, "evidence"), ev_bak)
    out = []
    try:
        for mid, prop, rel, old, new, n in M:
            if want and mid not in want:
                continue
            scratch = tempfile.mkdtemp(prefix="grammut.", dir="/var/tmp")
            try:
                shutil.copytree("/repo/src", os.path.join(scratch, "src"))
                shutil.copy("/repo/Cargo.lock", scratch)
                p = os.path.join(scratch, rel)
                s = open(p).read()
                t = nth_replace(s, old, new, n)
                if t is None:
                    out.append({"id": mid, "property": prop, "status": "pattern not found"}); print(mid, "pattern not found", flush=True); continue
                open(p, "w").write(t)
                r = subprocess.run([os.path.join(V, "bin", "check"), prop, "--no-canary"], cwd=V, env=dict(os.environ, GRAM_REPO=scratch), capture_output=True, text=True)
                first = [l for l in r.stdout.split("\n") if l.startswith(("FAILED OBLIGATION", "UNDECIDED", "failing input"))][:3]
                out.append({"id": mid, "property": prop, "file": rel, "old": old, "new": new, "exit": r.returncode, "first": first})
                print(mid, prop, "exit", r.returncode, "|", " | ".join(f[:110] for f in first[:2]), flush=True)
            finally:
                shutil.rmtree(scratch, ignore_errors=True)
    finally:
        shutil.rmtree(os.path.join(V, "evidence"), ignore_errors=True)
        shutil.copytree(ev_bak, os.path.join(V, "evidence"))
        shutil.rmtree(ev_bak, ignore_errors=True)
    json.dump(out, open(os.path.join(V, "tools", "mutants_result.json"), "w"), indent=1)
    print("killed", sum(1 for o in out if o.get("exit") == 1), "undecided", sum(1 for o in out if o.get("exit") == 2), "survived", sum(1 for o in out if o.get("exit") == 0), "of", len(out))

main()
