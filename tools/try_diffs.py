#!/usr/bin/env python3
"""usage: tools/try_diffs.py <ID> [-j N] patch.diff ...   -- apply each patch to its own scratch copy of /repo/src and run
`bin/check <ID> --no-canary` on it (GRAM_REPO); prints the exit code and the first failed obligations.  /repo is not touched."""
import os, shutil, subprocess, sys, tempfile
from concurrent.futures import ThreadPoolExecutor
V = os.path.dirname(os.path.dirname(os.path.abspath(__file__)))
def run(prop, diff):
    scratch = tempfile.mkdtemp(prefix="gramtry.", dir="/var/tmp")
    try:
        shutil.copytree("/repo/src", os.path.join(scratch, "src")); shutil.copy("/repo/Cargo.lock", scratch); shutil.copy("/repo/grammar.y", scratch)
        r = subprocess.run(["git", "apply", "--unsafe-paths", "--directory", scratch, os.path.abspath(diff)], cwd=scratch, capture_output=True, text=True)
        if r.returncode:
            return diff, "patch does not apply", []
        r = subprocess.run([os.path.join(V, "bin", "check"), prop, "--no-canary"], cwd=V, env=dict(os.environ, GRAM_REPO=scratch, VERIF_EVIDENCE_DIR=os.path.join(scratch, "ev")), capture_output=True, text=True)
        first = [l for l in r.stdout.split("\n") if l.startswith(("FAILED OBLIGATION", "UNDECIDED", "failing input"))][:3]
        return diff, r.returncode, first
    finally:
        shutil.rmtree(scratch, ignore_errors=True)
def main():
    a = sys.argv[1:]
    prop = a.pop(0)
    j = 3
    if a[:1] == ["-j"]:
        j = int(a[1]); a = a[2:]
    with ThreadPoolExecutor(max_workers=j) as ex:
        for d, rc, first in ex.map(lambda d: run(prop, d), a):
            print(os.path.basename(os.path.dirname(d)) + "/" + os.path.basename(d), "exit", rc, "|", " | ".join(x[:130] for x in first), flush=True)
if __name__ == "__main__":
    main()
