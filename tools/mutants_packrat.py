#!/usr/bin/env python3
"""Generated token-level mutants of the packrat unit (U5): the 36 parse_* functions, their macros, error_term,
collect_error_factories and the prefix of parse().  Each mutant is applied to a SCRATCH COPY of /repo/src (never to
/repo), woven, and the whole woven file is verified once (the same job `all:packrat` that bin/check C07 runs).
Verdicts: killed (a semantic obligation fails = bin/check would exit 1), undecided (lost anchor / compile error =
exit 2), survived (everything verifies = exit 0).
usage: tools/mutants_packrat.py [-j N] [id-substring ...]     writes tools/mutants_packrat_result.json"""
import json, os, re, shutil, subprocess, sys, tempfile
from concurrent.futures import ThreadPoolExecutor

V = os.path.dirname(os.path.dirname(os.path.abspath(__file__)))
sys.path.insert(0, os.path.join(V, "weave"))
import units  # noqa: E402
from weave import LostAnchor  # noqa: E402

SRC = "/repo/src/parser.rs"
LADDER = ["parse_atom", "parse_small_term", "parse_medium_term", "parse_large_term", "parse_huge_term", "parse_giant_term", "parse_jumbo_term", "parse_term"]
TOKENS = ["Plus", "Minus", "Asterisk", "Slash", "LessThan", "LessThanOrEqualTo", "DoubleEquals", "GreaterThan", "GreaterThanOrEqualTo",
          "ThickArrow", "ThinArrow", "LeftParen", "RightParen", "LeftCurly", "RightCurly", "Colon", "Equals", "Then", "Else", "If",
          "Type", "Integer", "Boolean", "True", "False"]


def regions(lines):
    """(name, first, last) of every item of the unit, 0-based inclusive."""
    out = []
    names = ["error_term", "collect_error_factories", "parse"] + [f for _, f in units.packrat_functions("/repo")]
    for i, l in enumerate(lines):
        m = re.match(r"^(?:pub )?fn (\w+)<'a>\(", l)
        if m and m.group(1) in names:
            j = next(k for k in range(i, len(lines)) if lines[k] == "}")
            out.append((m.group(1), i, j))
        m = re.match(r"^macro_rules! (\w+) \{", l)
        if m and m.group(1) in units.PACKRAT_MACROS:
            j = next(k for k in range(i, len(lines)) if lines[k] == "}")
            out.append(("macro " + m.group(1), i, j))
    return out


def generate():
    lines = open(SRC).read().split("\n")
    muts = []

    def add(kind, name, i, new):
        if new != lines[i]:
            muts.append({"id": f"{kind}:{name}:{i+1}:{len(muts)}", "kind": kind, "item": name, "line": i + 1, "old": lines[i], "new": new})

    for name, a, b in regions(lines):
        cut = None
        if name == "parse":
            # only the prefix of parse() is under contract
            cut = next(k for k in range(a, b) if "reassociate_sums_and_differences(" in lines[k])
        for i in range(a, (cut or b) + 1):
            l = lines[i]
            if l.lstrip().startswith("//"):
                continue
            # 1. callee one step up / down the precedence ladder
            for m in re.finditer(r"\b(parse_\w+)\(cache, tokens, (\w+)\)", l):
                f = m.group(1)
                if f in LADDER:
                    k = LADDER.index(f)
                    for k2 in (k - 1, k + 1):
                        if 0 <= k2 < len(LADDER):
                            add("callee", name, i, l[:m.start(1)] + LADDER[k2] + l[m.end(1):])
                # 3. wrong start position
                if m.group(2) == "next":
                    add("position", name, i, l[:m.start(2)] + "start" + l[m.end(2):])
            # 2. expected token
            m = re.match(r"^(\s+)(\w+),$", l)
            if m and m.group(2) in TOKENS and "token" not in name and ("consume_token" in "".join(lines[max(a, i - 6):i]) or "expect_token" in "".join(lines[max(a, i - 6):i])):
                t = m.group(2)
                add("token", name, i, m.group(1) + TOKENS[(TOKENS.index(t) + 1) % len(TOKENS)] + ",")
            # 4. flags
            if re.match(r"^\s+group: (true|false),$", l):
                add("flag", name, i, l.replace("true", "FALSE").replace("false", "true").replace("FALSE", "false"))
            if re.match(r"^\s+(true|false),$", l) and ("Variant::Lambda(" in "".join(lines[max(a, i - 8):i]) or "Variant::Pi(" in "".join(lines[max(a, i - 8):i])):
                add("flag", name, i, l.replace("true", "FALSE").replace("false", "true").replace("FALSE", "false"))
            # 5. operands swapped / 6. wrong constructor
            m = re.match(r"^(\s+variant: Variant::)(\w+)\(Rc::new\((\w+)\), Rc::new\((\w+)\)\),$", l)
            if m:
                add("swap", name, i, f"{m.group(1)}{m.group(2)}(Rc::new({m.group(4)}), Rc::new({m.group(3)})),")
                other = {"Sum": "Difference", "Difference": "Sum", "Product": "Quotient", "Quotient": "Product", "LessThan": "LessThanOrEqualTo",
                         "LessThanOrEqualTo": "LessThan", "EqualTo": "GreaterThan", "GreaterThan": "GreaterThanOrEqualTo", "GreaterThanOrEqualTo": "EqualTo",
                         "Application": "Sum"}.get(m.group(2))
                if other:
                    add("constructor", name, i, f"{m.group(1)}{other}(Rc::new({m.group(3)}), Rc::new({m.group(4)})),")
            m = re.match(r"^(\s+variant: Variant::)(Type|Integer|Boolean|True|False),$", l)
            if m:
                other = {"Type": "Integer", "Integer": "Boolean", "Boolean": "Type", "True": "False", "False": "True"}[m.group(2)]
                add("constructor", name, i, m.group(1) + other + ",")
            # 7. cache key
            m = re.match(r"^(\s+let cache_key = cache_check!\(cache, )(\w+)(, start\);)$", l)
            if m:
                nts = [v for v, _ in units.packrat_functions("/repo")]
                add("cachekey", name, i, m.group(1) + nts[(nts.index(m.group(2)) + 1) % len(nts)] + m.group(3))
                add("cachekey", name, i, l.replace(", start);", ", start + 1);"))
            # 8. arithmetic on positions, comparisons, negated tests
            if re.search(r"\bnext \+ 1\b", l):
                add("arith", name, i, l.replace("next + 1", "next + 2", 1))
                add("arith", name, i, l.replace("next + 1", "next", 1))
            if "next += 1;" in l:
                add("arith", name, i, l.replace("next += 1;", "next += 2;"))
            if "next == tokens.len()" in l:
                add("cmp", name, i, l.replace("next == tokens.len()", "next > tokens.len()"))
            if "next != tokens.len()" in l:
                add("cmp", name, i, l.replace("next != tokens.len()", "next == tokens.len()"))
                add("cmp", name, i, l.replace(" && next != tokens.len()", " && false"))
            if "next < tokens.len()" in l and "while" in l:
                add("cmp", name, i, l.replace("next < tokens.len()", "next + 1 < tokens.len()"))
            if re.search(r"\bif report_error \{", l):
                add("cond", name, i, l.replace("if report_error {", "if !report_error {"))
            if re.search(r"\bif !found \{", l):
                add("cond", name, i, l.replace("if !found {", "if found {"))
            if re.search(r"if depth > 0 \{", l):
                add("cond", name, i, l.replace("depth > 0", "depth > 1"))
            if "if depth == 0 =>" in l:
                add("cond", name, i, l.replace(" if depth == 0 =>", " =>"))
            if "if let Variant::ParseError = value.0.variant {" in l:
                add("cond", name, i, l.replace("Variant::ParseError", "Variant::Type"))
            if "found = true;" in l:
                add("cond", name, i, l.replace("found = true;", "found = false;"))
            if re.search(r"\.is_empty\(\)", l) and name == "parse":
                add("cond", name, i, l.replace("!error_factories.is_empty()", "error_factories.len() > 1") if "!error_factories" in l else l.replace("error_factories.is_empty() &&", "!error_factories.is_empty() &&"))
            # 9. errors dropped
            if re.match(r"^\s+errors: vec!\[error_factory\(", l):
                add("errors", name, i, re.sub(r"vec!\[.*\]", "vec![]", l))
            if re.match(r"^\s+errors,$", l):
                add("errors", name, i, l.replace("errors,", "errors: vec![],"))
            if re.search(r"\$errors\.push\(", l):
                add("errors", name, i, re.sub(r"\$errors\.push\(.*\);", "();", l))
            if re.search(r"error_factories\.push\(", l) and name in ("parse", "collect_error_factories"):
                add("errors", name, i, re.sub(r"error_factories\.push\(.*\);", "();", l))
            if "errors.append(&mut phony_errors);" in l:
                add("errors", name, i, l.replace("errors.append(&mut phony_errors);", "();"))
            # 10. confident flag
            if re.match(r"^\s+(confident_next|\w+_confident_next|found),$", l) and i + 1 <= b and lines[i + 1].strip() in ("),", ")"):
                add("confident", name, i, re.sub(r"\w+,$", "true,", l))
            if re.match(r"^\s+\(None, next, true\)$", l):
                add("confident", name, i, l)  # no-op guard (kept for symmetry)
            # 11. recursion skipped in collect_error_factories
            if name == "collect_error_factories" and re.match(r"^\s+collect_error_factories\(error_factories, \w+\);$", l):
                add("skip", name, i, re.sub(r"collect_error_factories\(.*\);", "();", l))
    return lines, muts


def run_one(lines, m):
    scratch = tempfile.mkdtemp(prefix="grammutp.", dir="/var/tmp")
    try:
        shutil.copytree("/repo/src", os.path.join(scratch, "src"))
        if "diff" in m:
            r = subprocess.run(["git", "apply", "--unsafe-paths", "--directory", scratch, m["diff"]], cwd=scratch, capture_output=True, text=True)
            if r.returncode != 0:
                return dict(m, verdict="undecided", detail="patch does not apply: " + r.stderr[-200:])
        else:
            ls = list(lines)
            ls[m["line"] - 1] = m["new"]
            open(os.path.join(scratch, "src/parser.rs"), "w").write("\n".join(ls))
        try:
            b = units.build_packrat(scratch)
        except LostAnchor as e:
            return dict(m, verdict="undecided", detail=f"lost anchor: {e}")
        p = os.path.join(scratch, "packrat.rs")
        open(p, "w").write(b.text())
        r = subprocess.run(["verus", "--edition", "2024", "--triggers-mode", "silent", "--no-auto-recommends-check", "--rlimit", "50",
                            "--multiple-errors", "2", "packrat.rs", "--error-format=json"], cwd=scratch, capture_output=True, text=True, timeout=900)
        sem, other = [], []
        for line in r.stderr.split("\n"):
            if not line.startswith("{"):
                continue
            try:
                d = json.loads(line)
            except Exception:
                continue
            if d.get("$message_type") != "diagnostic" or d.get("level") != "error" or d.get("message", "").startswith("aborting"):
                continue
            msg = d["message"]
            if d.get("code") or not any(k in msg for k in ("not satisfied", "assertion failed", "overflow", "unable to prove", "index out of bounds", "index in bounds", "decreases", "termination")):
                other.append(msg[:160])
            else:
                fn = None
                for s in d.get("spans", []):
                    f = b.fn_at(s["line_start"])
                    if f:
                        fn = f
                        break
                sem.append(f"{fn}: {msg}")
        if sem:
            return dict(m, verdict="killed", detail=sem[:3])
        if other or r.returncode != 0:
            return dict(m, verdict="undecided", detail=(other or [r.stderr[-300:]])[:2])
        return dict(m, verdict="survived", detail=[])
    except subprocess.TimeoutExpired:
        return dict(m, verdict="undecided", detail="timeout")
    finally:
        shutil.rmtree(scratch, ignore_errors=True)


def main():
    args = sys.argv[1:]
    j = 8
    if args[:1] == ["-j"]:
        j = int(args[1]); args = args[2:]
    if args[:1] == ["--diff"]:
        # whole patches instead of generated mutants (seeded changes, refactorings)
        lines, muts = [], [{"id": os.path.basename(os.path.dirname(d)) + "/" + os.path.basename(d), "diff": os.path.abspath(d), "old": "", "new": ""} for d in args[1:]]
        args = []
    else:
        lines, muts = generate()
    if args:
        muts = [m for m in muts if any(a in m["id"] for a in args)]
    print(len(muts), "mutants", flush=True)
    with ThreadPoolExecutor(max_workers=j) as ex:
        res = list(ex.map(lambda m: run_one(lines, m), muts))
    for r in res:
        print(r["verdict"].upper().ljust(9), r["id"], "|", r["old"].strip()[:60], "->", r["new"].strip()[:60], "|", str(r["detail"])[:150], flush=True)
    summary = {v: len([r for r in res if r["verdict"] == v]) for v in ("killed", "undecided", "survived")}
    print(summary)
    if not any("diff" in m for m in muts) and len(muts) > 100:
        json.dump({"summary": summary, "mutants": res}, open(os.path.join(V, "tools/mutants_packrat_result.json"), "w"), indent=1)


if __name__ == "__main__":
    main()
