#!/bin/bash
# usage: try_refactor.sh <patch.diff> <ID> ...  -- apply a behaviour-preserving change; report the exit code of each check
P=$1; shift
cd /repo || exit 2
git diff --quiet || { echo "/repo is dirty"; exit 2; }
git apply "$P" || { echo "patch does not apply"; exit 2; }
rm -rf /var/tmp/gv/evidence.bak; cp -r /verif/evidence /var/tmp/gv/evidence.bak   # evidence of runs on a changed tree must not be kept
for id in "$@"; do
  (cd /verif; bin/check $id > /var/tmp/gv/refactor_out.txt 2>&1; rc=$?; echo "$(basename $P) $id exit=$rc"; grep "^VIOLATION\|^UNDECIDED\|^FAILED" /var/tmp/gv/refactor_out.txt | head -5)
done
git checkout -- .
rm -rf /verif/evidence; cp -r /var/tmp/gv/evidence.bak /verif/evidence
