#!/usr/bin/env python3
"""Hand-written token mutants of resolve_variables / collect_definitions (unit U6, C08).  Each is applied to a SCRATCH
COPY of /repo/src and `bin/check C08 --no-canary` is run with GRAM_REPO pointing at the copy.
usage: tools/mutants_resolve.py [-j N] [ids...]    writes tools/mutants_resolve_result.json"""
import json, os, shutil, subprocess, sys, tempfile
from concurrent.futures import ThreadPoolExecutor
V = os.path.dirname(os.path.dirname(os.path.abspath(__file__)))
R = "src/parser.rs"
M = [
 ("r01", "variant: term::Variant::Variable(variable, depth - 1 - variable_depth),", "variant: term::Variant::Variable(variable, depth - variable_depth),", 1),
 ("r02", "variant: term::Variant::Variable(variable, depth - 1 - variable_depth),", "variant: term::Variant::Variable(variable, *variable_depth),", 1),
 ("r03", "                        body,\n                        depth + 1,\n                        &mut guard,", "                        body,\n                        depth,\n                        &mut guard,", 1),
 ("r04", "                        codomain,\n                        depth + 1,\n                        &mut guard,", "                        codomain,\n                        depth + 2,\n                        &mut guard,", 1),
 ("r05", "                context.insert(variable.name, depth);", "                context.insert(variable.name, depth + 1);", 1),
 ("r06", "                context.insert(variable.name, depth);", "                context.insert(variable.name, depth + 1);", 2),
 ("r07", "            defer! {{ context_cell.borrow_mut().remove(variable.name); }};", "            defer! {{ context_cell.borrow_mut().remove(PLACEHOLDER_VARIABLE); }};", 1),
 ("r08", "            if variable.name != PLACEHOLDER_VARIABLE {\n                // Report an error if the variable is already in the context.", "            if variable.name == PLACEHOLDER_VARIABLE {\n                // Report an error if the variable is already in the context.", 2),
 ("r09", "                if *variable != PLACEHOLDER_VARIABLE {", "                if *variable == PLACEHOLDER_VARIABLE {", 1),
 ("r10", "                    borrowed_context.insert(inner_variable.name, depth + i);", "                    borrowed_context.insert(inner_variable.name, depth);", 1),
 ("r11", "            let new_depth = depth + definitions.len();", "            let new_depth = depth + 1;", 1),
 ("r12", "                        annotation,\n                        new_depth,\n                        borrowed_context,", "                        annotation,\n                        depth,\n                        borrowed_context,", 1),
 ("r13", "                    inner_definition,\n                    new_depth,", "                    inner_definition,\n                    depth + i,", 1),
 ("r14", "                        &innermost_body,\n                        new_depth,", "                        &innermost_body,\n                        depth,", 1),
 ("r15", "                    borrowed_variables_added.push(inner_variable.name);", "", 1),
 ("r16", "                    if borrowed_context.contains_key(inner_variable.name) {", "                    if !borrowed_context.contains_key(inner_variable.name) {", 1),
 ("r17", "            definitions.push((*variable, annotation.clone(), definition.clone()));\n            collect_definitions(definitions, body.clone())", "            definitions.push((*variable, annotation.clone(), definition.clone()));\n            body.clone()", 1),
 ("r18", "            let resolved_domain =\n                resolve_variables(source_path, source_contents, domain, depth, context, errors);", "            let resolved_domain =\n                resolve_variables(source_path, source_contents, codomain, depth, context, errors);", 1),
 ("r19", "                    Rc::new(resolve_variables(\n                        source_path,\n                        source_contents,\n                        applicand,", "                    Rc::new(resolve_variables(\n                        source_path,\n                        source_contents,\n                        argument,", 1),
 ("r20", "                variant: term::Variant::Sum(", "                variant: term::Variant::Difference(", 1),
 ("r21", "                    *implicit,\n                    resolved_domain.map_or_else(", "                    !*implicit,\n                    resolved_domain.map_or_else(", 1),
 ("r22", "                            definitions.len() - i,", "                            0,", 1),
 ("r23", "                    errors.push(throw::<Error>(\n                        &format!(\"Variable {} not in scope.\", variable.code_str()),", "                    let _ = (throw::<Error>(\n                        &format!(\"Variable {} not in scope.\", variable.code_str()),", 1),
]

def nth_replace(s, old, new, n):
    idx = -1
    for _ in range(n):
        idx = s.find(old, idx + 1)
        if idx < 0:
            return None
    return s[:idx] + new + s[idx + len(old):]

def run(m):
    mid, old, new, n = m
    scratch = tempfile.mkdtemp(prefix="grammutr.", dir="/var/tmp")
    try:
        shutil.copytree("/repo/src", os.path.join(scratch, "src"))
        shutil.copy("/repo/Cargo.lock", scratch)
        p = os.path.join(scratch, R)
        t = nth_replace(open(p).read(), old, new, n)
        if t is None:
            return {"id": mid, "status": "pattern not found"}
        open(p, "w").write(t)
        r = subprocess.run([os.path.join(V, "bin", "check"), "C08", "--no-canary"], cwd=V, env=dict(os.environ, GRAM_REPO=scratch, VERIF_EVIDENCE_DIR=os.path.join(scratch, "ev")), capture_output=True, text=True)
        first = [l for l in r.stdout.split("\n") if l.startswith(("FAILED OBLIGATION", "UNDECIDED", "failing input"))][:2]
        return {"id": mid, "old": old, "new": new, "exit": r.returncode, "first": first}
    finally:
        shutil.rmtree(scratch, ignore_errors=True)

def main():
    args = sys.argv[1:]
    j = 4
    if args[:1] == ["-j"]:
        j = int(args[1]); args = args[2:]
    todo = [m for m in M if not args or m[0] in args]
    with ThreadPoolExecutor(max_workers=j) as ex:
        res = list(ex.map(run, todo))
    for r in res:
        print(r["id"], "exit", r.get("exit"), "|", " | ".join(x[:120] for x in r.get("first", [])), r.get("status", ""), flush=True)
    s = {k: len([r for r in res if r.get("exit") == k]) for k in (0, 1, 2)}
    print(s)
    if not args:
        json.dump({"summary": {"survived(exit 0)": s[0], "killed(exit 1)": s[1], "undecided(exit 2)": s[2]}, "mutants": res}, open(os.path.join(V, "tools/mutants_resolve_result.json"), "w"), indent=1)

if __name__ == "__main__":
    main()
