#!/bin/bash
# usage: confirm_seed_test.sh <worktree> <src file> <test text file> <test name filter>
# confirm a seeded change whose demonstration is a unit test: with the change 450 pass and the demo FAILS;
# without the change the demo PASSES.  The test is appended to the file's `tests` module only temporarily.
set -u
W=$1; F=$2; T=$3; N=$4
cd $W || exit 2
git diff -- src > /var/tmp/gv/cur.diff
diff -q /var/tmp/gv/cur.diff SEED_PATCH.diff >/dev/null && echo "patch == working tree diff" || echo "WARNING: SEED_PATCH.diff differs from working tree diff"
cargo test --offline 2>&1 | grep "test result"
cp $F /var/tmp/gv/backup_src.rs
python3 - "$F" "$T" <<'PY'
import sys
f,t=sys.argv[1],sys.argv[2]
s=open(f).read().rstrip("\n")
assert s.endswith("}")
s=s[:-1]+"\n"+open(t).read()+"\n}\n"
open(f,"w").write(s)
PY
echo "--- with change:"; cargo test --offline $N 2>&1 | grep "test result\|FAILED\|panicked" | head -5
git apply -R SEED_PATCH.diff && echo "(change reverted)"
echo "--- without change:"; cargo test --offline $N 2>&1 | grep "test result\|FAILED" | head -5
git apply SEED_PATCH.diff
cp /var/tmp/gv/backup_src.rs $F
git diff -- src > /var/tmp/gv/cur2.diff; diff -q /var/tmp/gv/cur2.diff SEED_PATCH.diff >/dev/null && echo "restored"
