#!/usr/bin/env python3
"""Generated one-token mutants of the functions under contract of units U1, U2 and U4 (de_bruijn.rs, term.rs
free_variables, evaluator.rs, the reassociate_* passes).  Each mutant is applied to a SCRATCH COPY of /repo/src and the
property's quick check is run on it (GRAM_REPO, evidence redirected).  /repo is never touched.
usage: tools/mutants_gen.py [-j N] [--list] [C11|C02|C07 ...]      writes tools/mutants_gen_result.json"""
import json, os, re, shutil, subprocess, sys, tempfile
from concurrent.futures import ThreadPoolExecutor

V = os.path.dirname(os.path.dirname(os.path.abspath(__file__)))
TARGETS = [
    ("C11", "src/de_bruijn.rs", ["signed_shift", "unsigned_shift", "open"]),
    ("C11", "src/term.rs", ["free_variables"]),
    ("C02", "src/evaluator.rs", ["is_value", "step", "evaluate"]),
    ("C07", "src/parser.rs", ["reassociate_applications", "reassociate_products_and_quotients", "reassociate_sums_and_differences"]),
    ("C08", "src/parser.rs", ["resolve_variables", "collect_definitions", "parse", "check_definitions", "check_definition"]),
    ("C06", "src/normalizer.rs", ["normalize_weak_head"]),
    ("C06", "src/equality.rs", ["syntactically_equal"]),
    ("C06", "src/unifier.rs", ["unify"]),
]
RULES = [
    ("plus1-drop", r" \+ 1\b", ""), ("plus1-2", r" \+ 1\b", " + 2"), ("minus1-drop", r" - 1\b", ""),
    ("ge-gt", r" >= ", " > "), ("gt-ge", r" > ", " >= "), ("le-lt", r" <= ", " < "), ("lt-le", r" < ", " <= "),
    ("eq-ne", r" == ", " != "), ("not-drop", r"\bif !", "if "),
    ("t1-t2", r"\bterm1\b", "term2"), ("t2-t1", r"\bterm2\b", "term1"),
    ("then-else", r"\bthen_branch\b", "else_branch"), ("else-then", r"\belse_branch\b", "then_branch"),
    ("applicand-argument", r"\bapplicand\b", "argument"), ("body-domain", r"\bcodomain\b", "domain"),
    ("true-false", r"\bTrue\b", "False"), ("false-true", r"\bFalse\b", "True"),
    ("len-1", r"\bdefinitions\.len\(\)", "1"), ("zero-one", r", 0\)", ", 1)"), ("zero-one2", r", 0,", ", 1,"),
    ("cutoff-0", r"\bnew_cutoff\b", "cutoff"), ("shift-0", r"\bnew_shift_amount\b", "shift_amount"),
    ("sum-diff", r"\bSum\(", "Difference("), ("prod-quot", r"\bProduct\(", "Quotient("), ("lt-gt-ctor", r"\bLessThan\(", "GreaterThan("),
    ("group-flip", r"group: true", "group: false"), ("group-flip2", r"group: false", "group: true"),
    ("some-none", r"\bSome\(acc\)", "None"), ("grouped-not", r"\.group \{", ".group == false {"),
    ("skip1-0", r"\.skip\(1\)", ".skip(0)"), ("index-plus", r"\bindex_plus_one\b", "index"),
    ("depth-newdepth", r"\bnew_depth\b", "depth"), ("depth-plus", r"\bdepth,$", "depth + 1,"), ("ctx-len-0", r"\bcontext\.len\(\)", "0"),
    ("ne-eq-ph", r" != PLACEHOLDER_VARIABLE", " == PLACEHOLDER_VARIABLE"), ("domain-body", r"\bdomain,$", "body,"),
    ("iidx-plus", r"\bi_index_plus_one\b", "i_index"), ("iidx-minus", r"\bi_index,$", "i_index_plus_one,"), ("skip-i", r"\.skip\(i\)", ".skip(i + 1)"),
    ("offset-drop", r" - offset\b", ""), ("and-or", r" && ", " || "), ("t11-t21", r"\bterm11\b", "term21"), ("t12-t22", r"\bterm12\b", "term22"),
    ("body1-body2", r"\bbody1\b", "body2"), ("implicit-drop", r"implicit1 == implicit2 && ", ""), ("push-some", r"\.push\(None\)", ".push(Some((Rc::new(term1.clone()), 1)))"),
    ("len-eq-drop", r"definitions1\.len\(\) == definitions2\.len\(\)$", "true"),
    ("insert-drop", r"^(\s*)(\w+)\.insert\((.*), depth( \+ i)?\);$", r"\1let _ = (\3, depth);"), ("is-empty-not", r"if errors\.is_empty\(\)", "if !errors.is_empty()"),
]


def fn_range(lines, name):
    for i, l in enumerate(lines):
        if re.match(r"^(pub )?fn %s\b" % re.escape(name), l):
            for j in range(i, len(lines)):
                if lines[j] == "}":
                    return i, j
    return None


def generate(props):
    muts = []
    for prop, rel, fns in TARGETS:
        if props and prop not in props:
            continue
        lines = open(os.path.join("/repo", rel)).read().split("\n")
        for fn in fns:
            r = fn_range(lines, fn)
            if not r:
                continue
            per_rule = {}
            for i in range(r[0], r[1] + 1):
                l = lines[i]
                # comments, panics; match-arm heads (`PATTERN => ..`): mutating a pattern variable is a compile error, not a mutant
                if l.lstrip().startswith("//") or "panic!" in l or ("=>" in l and " if " not in l.split("=>")[0]):
                    continue
                for rule, pat, rep in RULES:
                    if re.search(pat, l):
                        n = per_rule.get(rule, 0)
                        if n >= 4:      # at most four sites per rule and function
                            continue
                        new = re.sub(pat, rep, l, count=1)
                        if new != l:
                            per_rule[rule] = n + 1
                            muts.append({"id": f"{prop}:{fn}:{rule}:{i + 1}", "property": prop, "file": rel, "line": i + 1, "old": l, "new": new})
    return muts


def run(m):
    scratch = tempfile.mkdtemp(prefix="grammutg.", dir="/var/tmp")
    try:
        shutil.copytree("/repo/src", os.path.join(scratch, "src"))
        shutil.copy("/repo/Cargo.lock", scratch)
        shutil.copy("/repo/grammar.y", scratch)
        p = os.path.join(scratch, m["file"])
        ls = open(p).read().split("\n")
        ls[m["line"] - 1] = m["new"]
        open(p, "w").write("\n".join(ls))
        r = subprocess.run([os.path.join(V, "bin", "check"), m["property"], "--no-canary"], cwd=V, env=dict(os.environ, GRAM_REPO=scratch, VERIF_EVIDENCE_DIR=os.path.join(scratch, "ev")), capture_output=True, text=True)
        first = [l for l in r.stdout.split("\n") if l.startswith(("FAILED OBLIGATION", "UNDECIDED", "failing input"))][:2]
        res = dict(m, exit=r.returncode, first=first)
        print(m["id"], "exit", r.returncode, "|", m["old"].strip()[:50], "->", m["new"].strip()[:50], "|", " | ".join(x[:100] for x in first), flush=True)
        return res
    finally:
        shutil.rmtree(scratch, ignore_errors=True)


def main():
    a = sys.argv[1:]
    j = 4
    if a[:1] == ["-j"]:
        j = int(a[1]); a = a[2:]
    listing = "--list" in a
    props = [x for x in a if x != "--list"]
    muts = generate(props)
    print(len(muts), "mutants", flush=True)
    if listing:
        for m in muts:
            print(m["id"], "|", m["old"].strip(), "->", m["new"].strip())
        return
    with ThreadPoolExecutor(max_workers=j) as ex:
        res = list(ex.map(run, muts))
    s = {k: len([r for r in res if r["exit"] == k]) for k in (0, 1, 2)}
    print({"survived (exit 0)": s[0], "killed (exit 1)": s[1], "undecided (exit 2)": s[2]})
    out = "tools/mutants_gen_result.json" if not props else "tools/mutants_gen_result_" + "_".join(props) + ".json"
    json.dump({"summary": s, "mutants": res}, open(os.path.join(V, out), "w"), indent=1)


if __name__ == "__main__":
    main()
