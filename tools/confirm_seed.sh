#!/bin/bash
# usage: confirm_seed.sh <worktree> <demo.g> [run|check]   -- confirm a seeded change in its own scratch worktree:
# patch == working-tree diff, builds, 450 tests pass, demo output differs with/without the change
set -u
W=$1; D=$2; MODE=${3:-run}
cd $W || exit 2
git diff -- src > /var/tmp/gv/cur.diff
diff -q /var/tmp/gv/cur.diff SEED_PATCH.diff >/dev/null && echo "patch == working tree diff" || echo "WARNING: SEED_PATCH.diff differs from working tree diff"
cargo build --offline 2>&1 | tail -1
cargo test --offline 2>&1 | grep "test result"
echo "--- with change:";  ./target/debug/gram $MODE $D 2>&1 | tail -3
git stash -q -- src
cargo build --offline 2>&1 | tail -1
echo "--- without change:"; ./target/debug/gram $MODE $D 2>&1 | tail -3
git stash pop -q
git status --short | head -5
