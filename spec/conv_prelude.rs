// ---- prelude of unit U8 (C06): stubs that belong to the TRUSTED BASE -------------------------------------

// R9 (variant): pointer identity of two hole cells.  No contract: the only arm that calls it compares two
// UNRESOLVED holes, which the precondition (no unresolved hole) makes unreachable.
#[verifier::external_body]
pub fn hole_ptr_eq<'a>(a: &Rc<RefCell<Option<Term<'a>>>>, b: &Rc<RefCell<Option<Term<'a>>>>) -> bool { unimplemented!() }

// R1 (variant): `definitions.clone()` on the vector of a definition group: a vector with equal elements
// (vstd's Vec::clone specification says nothing about Rc payloads inside tuples).
#[verifier::external_body]
pub fn clone_definitions<'a>(v: &Vec<(&'a str, Rc<Term<'a>>, Rc<Term<'a>>)>) -> (r: Vec<(&'a str, Rc<Term<'a>>, Rc<Term<'a>>)>)
    ensures r@ == v@
{ unimplemented!() }

// R6: the two arms of `unify` that SOLVE an unresolved hole (occurs check over a pointer-hashed set, write through
// `borrow_mut`) are replaced by a call to this function.  Its precondition is `false`: Verus must prove the arms
// unreachable, which they are because a weak-head normal form of a term without unresolved holes is never a hole.
#[verifier::external_body]
pub fn dead_hole_arm() -> bool
    requires false
{ unimplemented!() }
