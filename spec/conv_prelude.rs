// ---- prelude of unit U8 (C06): stubs that belong to the TRUSTED BASE -------------------------------------

// R9 (variant): pointer identity of two hole cells.  No contract: the only arm that calls it compares two
// UNRESOLVED holes, which the precondition (no unresolved hole) makes unreachable.
#[verifier::external_body]
pub fn hole_ptr_eq<'a>(a: &Rc<RefCell<Option<Term<'a>>>>, b: &Rc<RefCell<Option<Term<'a>>>>) -> bool { unimplemented!() }

// R1 (variant): `definitions.clone()` on the vector of a definition group: a vector with equal elements
// (vstd's Vec::clone specification says nothing about Rc payloads inside tuples).
#[verifier::external_body]
pub fn clone_definitions<'a>(v: &Vec<(&'a str, Rc<Term<'a>>, Rc<Term<'a>>)>) -> (r: Vec<(&'a str, Rc<Term<'a>>, Rc<Term<'a>>)>)
    ensures r@ == v@
{ unimplemented!() }
