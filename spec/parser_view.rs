// ---- abstract view of parser::Term and the reference "left-associate every chain, parentheses are
// atomic" (hand-written from grammar.y and the statement of C07; DESIGN.md 5/C07) -------------------

pub enum PKind {
    ParseError, Type, Variable(Seq<char>),
    Lambda(Seq<char>, bool, bool),   // binder name, implicit, has a domain annotation
    Pi(Seq<char>, bool),
    App,
    Let(Seq<char>, bool),            // binder name, has an annotation
    Integer, Lit(int), Neg,
    Sum, Difference, Product, Quotient, LessThan, LessThanOrEqualTo, EqualTo, GreaterThan, GreaterThanOrEqualTo,
    Boolean, True, False, If,
}

// Source ranges and error lists are erased; names, flags, literals, operand order and the `group`
// (parenthesised) flag are kept.
pub struct PTerm {
    pub kind: PKind,
    pub group: bool,
    pub kids: Seq<PTerm>,
}

spec fn p0() -> Seq<PTerm> { Seq::empty() }
spec fn p1(a: PTerm) -> Seq<PTerm> { Seq::empty().push(a) }
spec fn p2(a: PTerm, b: PTerm) -> Seq<PTerm> { Seq::empty().push(a).push(b) }
spec fn p3(a: PTerm, b: PTerm, c: PTerm) -> Seq<PTerm> { Seq::empty().push(a).push(b).push(c) }

spec fn pkind_of(v: Variant) -> PKind {
    match v {
        Variant::ParseError => PKind::ParseError,
        Variant::Type => PKind::Type,
        Variant::Variable(x) => PKind::Variable(x@),
        Variant::Lambda(x, im, d, _) => PKind::Lambda(x.name@, im, d is Some),
        Variant::Pi(x, im, _, _) => PKind::Pi(x.name@, im),
        Variant::Application(_, _) => PKind::App,
        Variant::Let(x, a, _, _) => PKind::Let(x.name@, a is Some),
        Variant::Integer => PKind::Integer,
        Variant::IntegerLiteral(b) => PKind::Lit(bigint_val(b)),
        Variant::Negation(_) => PKind::Neg,
        Variant::Sum(_, _) => PKind::Sum,
        Variant::Difference(_, _) => PKind::Difference,
        Variant::Product(_, _) => PKind::Product,
        Variant::Quotient(_, _) => PKind::Quotient,
        Variant::LessThan(_, _) => PKind::LessThan,
        Variant::LessThanOrEqualTo(_, _) => PKind::LessThanOrEqualTo,
        Variant::EqualTo(_, _) => PKind::EqualTo,
        Variant::GreaterThan(_, _) => PKind::GreaterThan,
        Variant::GreaterThanOrEqualTo(_, _) => PKind::GreaterThanOrEqualTo,
        Variant::Boolean => PKind::Boolean,
        Variant::True => PKind::True,
        Variant::False => PKind::False,
        Variant::If(_, _, _) => PKind::If,
    }
}

spec fn pview(t: Term) -> PTerm
    decreases t, 1nat
{
    PTerm { kind: pkind_of(t.variant), group: t.group, kids: pkids_of(t) }
}

spec fn pkids_of(t: Term) -> Seq<PTerm>
    decreases t, 0nat
{
    match t.variant {
        Variant::ParseError | Variant::Type | Variant::Variable(_) | Variant::Integer | Variant::IntegerLiteral(_)
        | Variant::Boolean | Variant::True | Variant::False => p0(),
        Variant::Lambda(_, _, d, b) => match d { Some(d) => p2(pview(*d), pview(*b)), None => p1(pview(*b)) },
        Variant::Let(_, a, d, b) => match a { Some(a) => p3(pview(*a), pview(*d), pview(*b)), None => p2(pview(*d), pview(*b)) },
        Variant::Pi(_, _, a, b) | Variant::Application(a, b) | Variant::Sum(a, b) | Variant::Difference(a, b)
        | Variant::Product(a, b) | Variant::Quotient(a, b) | Variant::LessThan(a, b) | Variant::LessThanOrEqualTo(a, b)
        | Variant::EqualTo(a, b) | Variant::GreaterThan(a, b) | Variant::GreaterThanOrEqualTo(a, b) => p2(pview(*a), pview(*b)),
        Variant::Negation(a) => p1(pview(*a)),
        Variant::If(a, b, c) => p3(pview(*a), pview(*b), pview(*c)),
    }
}

// [ref:error_check]: the passes are only run on trees without ParseError nodes.
#[verifier::opaque]
spec fn no_parse_error(t: PTerm) -> bool
    decreases t
{
    t.kind != PKind::ParseError && forall|i: int| #![trigger t.kids[i]] 0 <= i < t.kids.len() ==> no_parse_error(t.kids[i])
}

