// ---- laws of C11 as lemmas over the spec functions (filled in below) -----------------------------
