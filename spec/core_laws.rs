// ---- the algebraic laws named in C11, as lemmas over the spec functions ------------------------------
// The contracts of signed_shift / unsigned_shift / open / free_variables say that the real functions
// compute s_shift / s_open / s_has_fv on the abstract view, so every law below transfers to the real
// code (corollaries at the end).

#[verifier::opaque]
pub open spec fn s_hole_free(t: STerm) -> bool
    decreases t
{
    match t {
        STerm::Hole => false,
        STerm::Var(_) => true,
        STerm::Node(k, kids) => forall|i: int| #![trigger kids[i]] 0 <= i < kids.len() ==> s_hole_free(kids[i]),
    }
}

pub proof fn lemma_ok_hole_free(t: STerm, c: nat, b: nat)
    requires s_ok(t, c, b),
    ensures s_hole_free(t),
    decreases t
{
    reveal(s_ok);
    reveal(s_hole_free);
    match t {
        STerm::Node(k, kids) => {
            assert forall|i: int| 0 <= i < kids.len() implies s_hole_free(#[trigger] kids[i]) by {
                lemma_ok_hole_free(kids[i], c + binds(k, kids.len(), i), b);
            }
        }
        _ => {}
    }
}

// A shift that succeeds was applied to a hole-free term and yields a hole-free term.
pub proof fn law_shift_some_hole_free(t: STerm, c: nat, d: int)
    requires s_shift(t, c, d) is Some,
    ensures s_hole_free(t), s_hole_free(s_shift(t, c, d).unwrap()),
    decreases t
{
    reveal(s_shift);
    reveal(s_hole_free);
    match t {
        STerm::Node(k, kids) => {
            assert(t->Node_1 == kids);
            let r = s_shift(t, c, d).unwrap();
            let rk = r->Node_1;
            assert forall|i: int| 0 <= i < kids.len() implies s_hole_free(#[trigger] kids[i]) by {
                law_shift_some_hole_free(kids[i], c + binds(k, kids.len(), i), d);
            }
            assert forall|i: int| 0 <= i < rk.len() implies s_hole_free(#[trigger] rk[i]) by {
                law_shift_some_hole_free(kids[i], c + binds(k, kids.len(), i), d);
            }
        }
        _ => {}
    }
}

// LAW 1: shifting by zero is the identity.
pub proof fn law_shift_zero(t: STerm, c: nat)
    requires s_hole_free(t),
    ensures s_shift(t, c, 0) == Some(t),
    decreases t
{
    reveal(s_shift);
    reveal(s_hole_free);
    match t {
        STerm::Node(k, kids) => {
            assert forall|i: int| 0 <= i < kids.len() implies s_shift(#[trigger] kids[i], c + binds(k, kids.len(), i), 0) == Some(kids[i]) by {
                law_shift_zero(kids[i], c + binds(k, kids.len(), i));
            }
            lemma_shift_node(k, kids, kids, c, 0);
        }
        _ => {}
    }
}

// An upward shift of a hole-free term always succeeds.
pub proof fn law_shift_up_total(t: STerm, c: nat, d: nat)
    requires s_hole_free(t),
    ensures s_shift(t, c, d as int) is Some,
    decreases t
{
    reveal(s_shift);
    reveal(s_hole_free);
    match t {
        STerm::Node(k, kids) => {
            assert forall|i: int| 0 <= i < kids.len() implies s_shift(#[trigger] kids[i], c + binds(k, kids.len(), i), d as int) is Some by {
                law_shift_up_total(kids[i], c + binds(k, kids.len(), i), d);
            }
        }
        _ => {}
    }
}

// LAW 2: shifts compose additively (an upward shift followed by any shift).
pub proof fn law_shift_compose(t: STerm, c: nat, d1: nat, d2: int)
    requires s_shift(t, c, d1 as int) is Some,
    ensures s_shift(s_shift(t, c, d1 as int).unwrap(), c, d2) == s_shift(t, c, d1 + d2),
    decreases t
{
    reveal(s_shift);
    match t {
        STerm::Node(k, kids) => {
            assert(t->Node_1 == kids);
            let u = s_shift(t, c, d1 as int).unwrap();
            let uk = u->Node_1;
            assert(uk.len() == kids.len());
            assert forall|i: int| 0 <= i < kids.len() implies
                s_shift(#[trigger] uk[i], c + binds(k, uk.len(), i), d2) == s_shift(kids[i], c + binds(k, kids.len(), i), d1 + d2) by {
                assert(s_shift(kids[i], c + binds(k, kids.len(), i), d1 as int) is Some);
                law_shift_compose(kids[i], c + binds(k, kids.len(), i), d1, d2);
            }
            let lhs = s_shift(u, c, d2);
            let rhs = s_shift(t, c, d1 + d2);
            assert(u->Node_1 == uk);
            if forall|i: int| #![trigger kids[i]] 0 <= i < kids.len() ==> s_shift(kids[i], c + binds(k, kids.len(), i), d1 + d2) is Some {
                assert forall|i: int| 0 <= i < uk.len() implies s_shift(#[trigger] uk[i], c + binds(k, uk.len(), i), d2) is Some by {
                    assert(s_shift(kids[i], c + binds(k, kids.len(), i), d1 + d2) is Some);
                }
                assert(lhs is Some);
                assert(rhs is Some);
                assert(lhs.unwrap()->Node_1 =~= rhs.unwrap()->Node_1);
            } else {
                let i = choose|i: int| 0 <= i < kids.len() && !(s_shift(#[trigger] kids[i], c + binds(k, kids.len(), i), d1 + d2) is Some);
                assert(!(s_shift(uk[i], c + binds(k, uk.len(), i), d2) is Some));
                assert(lhs is None);
                assert(rhs is None);
            }
        }
        _ => {}
    }
}

// LAW 3: a downward shift undoes an upward one.
pub proof fn law_shift_undo(t: STerm, c: nat, d: nat)
    requires s_hole_free(t),
    ensures
        s_shift(t, c, d as int) is Some,
        s_shift(s_shift(t, c, d as int).unwrap(), c, -(d as int)) == Some(t),
{
    law_shift_up_total(t, c, d);
    law_shift_compose(t, c, d, -(d as int));
    law_shift_zero(t, c);
}

// LAW 4: a downward shift fails exactly when a variable would become unbound, i.e. when some free
// variable (relative to the cutoff) is smaller than the amount.
pub proof fn law_shift_down_fails_iff(t: STerm, c: nat, d: nat)
    requires s_hole_free(t),
    ensures s_shift(t, c, -(d as int)) is None <==> exists|x: nat| #[trigger] s_has_fv(t, c, x) && x < d,
    decreases t
{
    reveal(s_shift);
    reveal(s_hole_free);
    reveal(s_has_fv);
    match t {
        STerm::Node(k, kids) => {
            assert(t->Node_1 == kids);
            assert forall|i: int| 0 <= i < kids.len() implies
                (s_shift(#[trigger] kids[i], c + binds(k, kids.len(), i), -(d as int)) is None <==> exists|x: nat| #[trigger] s_has_fv(kids[i], c + binds(k, kids.len(), i), x) && x < d) by {
                law_shift_down_fails_iff(kids[i], c + binds(k, kids.len(), i), d);
            }
            if s_shift(t, c, -(d as int)) is None {
                let i = choose|i: int| 0 <= i < kids.len() && !(s_shift(#[trigger] kids[i], c + binds(k, kids.len(), i), -(d as int)) is Some);
                let x = choose|x: nat| #[trigger] s_has_fv(kids[i], c + binds(k, kids.len(), i), x) && x < d;
                assert(s_has_fv(t, c, x) && x < d);
            }
            if exists|x: nat| #[trigger] s_has_fv(t, c, x) && x < d {
                let x = choose|x: nat| #[trigger] s_has_fv(t, c, x) && x < d;
                let i = choose|i: int| #![trigger kids[i]] 0 <= i < kids.len() && s_has_fv(kids[i], c + binds(k, kids.len(), i), x);
                assert(s_has_fv(kids[i], c + binds(k, kids.len(), i), x) && x < d);
                assert(s_shift(kids[i], c + binds(k, kids.len(), i), -(d as int)) is None);
            }
        }
        STerm::Var(i) => {
            if i >= c && i - (d as int) < c {
                assert(s_has_fv(t, c, (i - c) as nat) && (i - c) < d);
            }
        }
        _ => {}
    }
}

// LAW 5: opening a term in which the variable does not occur merely lowers the indices above it.
// (i is the index being replaced at this depth, dd <= i the number of binders crossed so far.)
pub proof fn law_open_absent(t: STerm, i: nat, dd: nat, u: STerm, s: nat)
    requires
        s_hole_free(t),
        dd <= i,
        !s_has_fv(t, dd, (i - dd) as nat),
    ensures
        s_shift(t, i, -1) == Some(s_open(t, i, u, s)),
    decreases t
{
    reveal(s_shift);
    reveal(s_hole_free);
    reveal(s_has_fv);
    reveal(s_open);
    match t {
        STerm::Node(k, kids) => {
            assert(t->Node_1 == kids);
            let r = s_open(t, i, u, s);
            let rk = r->Node_1;
            assert(rk.len() == kids.len());
            assert forall|j: int| 0 <= j < kids.len() implies s_shift(#[trigger] kids[j], i + binds(k, kids.len(), j), -1) == Some(rk[j]) by {
                let b = binds(k, kids.len(), j);
                assert(!s_has_fv(kids[j], dd + b, (i - dd) as nat));
                law_open_absent(kids[j], i + b, dd + b, u, s + b);
            }
            lemma_shift_node(k, kids, rk, i, -1);
        }
        _ => {}
    }
}

// Free variables after an upward shift by s + dl of a term sitting under b binders of its own, seen from
// cutoff b + dl: exactly the old ones, raised by s.
pub proof fn law_fv_shift(t: STerm, b: nat, dl: nat, s: nat, x: nat)
    requires s_hole_free(t),
    ensures
        s_shift(t, b, (s + dl) as int) is Some,
        s_has_fv(s_shift(t, b, (s + dl) as int).unwrap(), b + dl, x) <==> (x >= s && s_has_fv(t, b, (x - s) as nat)),
    decreases t
{
    reveal(s_shift);
    reveal(s_hole_free);
    reveal(s_has_fv);
    law_shift_up_total(t, b, s + dl);
    match t {
        STerm::Node(k, kids) => {
            assert(t->Node_1 == kids);
            let r = s_shift(t, b, (s + dl) as int).unwrap();
            let rk = r->Node_1;
            assert(rk.len() == kids.len());
            assert(r->Node_1 == rk);
            assert forall|j: int| 0 <= j < kids.len() implies
                (s_has_fv(#[trigger] rk[j], b + dl + binds(k, rk.len(), j), x) <==> (x >= s && s_has_fv(kids[j], b + binds(k, kids.len(), j), (x - s) as nat))) by {
                law_fv_shift(kids[j], b + binds(k, kids.len(), j), dl, s, x);
            }
            if s_has_fv(r, b + dl, x) {
                let j = choose|j: int| #![trigger rk[j]] 0 <= j < rk.len() && s_has_fv(rk[j], b + dl + binds(k, rk.len(), j), x);
                assert(s_has_fv(kids[j], b + binds(k, kids.len(), j), (x - s) as nat));
            }
            if x >= s && s_has_fv(t, b, (x - s) as nat) {
                let j = choose|j: int| #![trigger kids[j]] 0 <= j < kids.len() && s_has_fv(kids[j], b + binds(k, kids.len(), j), (x - s) as nat);
                assert(s_has_fv(rk[j], b + dl + binds(k, rk.len(), j), x));
            }
        }
        _ => {}
    }
}

// LAW 6: the free variables of the result of opening are exactly those predicted: the free variables
// of t other than the replaced one (those above it lowered by one), plus -- if the replaced variable
// occurs -- the free variables of the inserted term raised by s.   (dl = binders crossed so far.)
pub proof fn law_fv_open(t: STerm, j: nat, dl: nat, u: STerm, s: nat, x: nat)
    requires s_hole_free(t), s_hole_free(u),
    ensures
        s_has_fv(s_open(t, j + dl, u, s + dl), dl, x) <==> (
            (x < j && s_has_fv(t, dl, x))
            || (x >= j && s_has_fv(t, dl, x + 1))
            || (s_has_fv(t, dl, j) && x >= s && s_has_fv(u, 0, (x - s) as nat))),
    decreases t
{
    reveal(s_hole_free);
    reveal(s_has_fv);
    reveal(s_open);
    match t {
        STerm::Node(k, kids) => {
            assert(t->Node_1 == kids);
            let r = s_open(t, j + dl, u, s + dl);
            let rk = r->Node_1;
            assert(r->Node_1 == rk);
            assert(rk.len() == kids.len());
            assert forall|i: int| 0 <= i < kids.len() implies
                (s_has_fv(#[trigger] rk[i], dl + binds(k, rk.len(), i), x) <==> (
                    (x < j && s_has_fv(kids[i], dl + binds(k, kids.len(), i), x))
                    || (x >= j && s_has_fv(kids[i], dl + binds(k, kids.len(), i), x + 1))
                    || (s_has_fv(kids[i], dl + binds(k, kids.len(), i), j) && x >= s && s_has_fv(u, 0, (x - s) as nat)))) by {
                let b = binds(k, kids.len(), i);
                law_fv_open(kids[i], j, dl + b, u, s, x);
                assert(rk[i] == s_open(kids[i], j + dl + b, u, s + dl + b));
            }
            if s_has_fv(r, dl, x) {
                let i = choose|i: int| #![trigger rk[i]] 0 <= i < rk.len() && s_has_fv(rk[i], dl + binds(k, rk.len(), i), x);
                let b = binds(k, kids.len(), i);
                if x < j && s_has_fv(kids[i], dl + b, x) { assert(s_has_fv(t, dl, x)); }
                else if x >= j && s_has_fv(kids[i], dl + b, x + 1) { assert(s_has_fv(t, dl, x + 1)); }
                else { assert(s_has_fv(kids[i], dl + b, j)); assert(s_has_fv(t, dl, j)); }
            }
            if x < j && s_has_fv(t, dl, x) {
                let i = choose|i: int| #![trigger kids[i]] 0 <= i < kids.len() && s_has_fv(kids[i], dl + binds(k, kids.len(), i), x);
                assert(s_has_fv(rk[i], dl + binds(k, rk.len(), i), x));
            }
            if x >= j && s_has_fv(t, dl, x + 1) {
                let i = choose|i: int| #![trigger kids[i]] 0 <= i < kids.len() && s_has_fv(kids[i], dl + binds(k, kids.len(), i), x + 1);
                assert(s_has_fv(rk[i], dl + binds(k, rk.len(), i), x));
            }
            if s_has_fv(t, dl, j) && x >= s && s_has_fv(u, 0, (x - s) as nat) {
                let i = choose|i: int| #![trigger kids[i]] 0 <= i < kids.len() && s_has_fv(kids[i], dl + binds(k, kids.len(), i), j);
                assert(s_has_fv(rk[i], dl + binds(k, rk.len(), i), x));
            }
        }
        STerm::Var(v) => {
            if v == j + dl {
                law_fv_shift(u, 0, dl, s, x);
                assert(s_raise(u, s + dl) == s_shift(u, 0, (s + dl) as int).unwrap());
            }
        }
        _ => {}
    }
}

// ---- transfer to the real code: what the contracts + laws say about the real functions ---------------
// (exec functions calling the real functions; Verus proves the asserted relations from the contracts)

fn corollary_shift_compose<'a>(t: &Term<'a>, c: usize, a: usize, b: usize) -> (r: (Term<'a>, Term<'a>))
    requires
        s_ok(view(*t), c as nat, (BOUND() / 2) as nat),
        a < BOUND() / 4,
        b < BOUND() / 4,
    ensures
        // shifting by a and then by b gives the same term (up to names/ranges) as shifting by a + b
        view(r.0) == view(r.1),
{
    proof { lemma_ok_weaken(view(*t), c as nat, (BOUND() / 2) as nat, c as nat, BOUND() as nat); }
    let t1 = unsigned_shift(t, c, a);
    proof {
        lemma_ok_shift(view(*t), c as nat, (BOUND() / 2) as nat, c as nat, a as nat);
        lemma_ok_weaken(view(t1), c as nat, (BOUND() / 2 + a) as nat, c as nat, BOUND() as nat);
        law_shift_compose(view(*t), c as nat, a as nat, b as int);
    }
    let t2 = unsigned_shift(&t1, c, b);
    let t3 = unsigned_shift(t, c, a + b);
    (t2, t3)
}

fn corollary_shift_undo<'a>(t: &Term<'a>, c: usize, a: usize) -> (r: Option<Term<'a>>)
    requires
        s_ok(view(*t), c as nat, (BOUND() / 2) as nat),
        a < BOUND() / 4,
    ensures
        // a downward shift undoes an upward one
        r is Some && view(r->Some_0) == view(*t),
{
    proof { lemma_ok_weaken(view(*t), c as nat, (BOUND() / 2) as nat, c as nat, BOUND() as nat); }
    let t1 = unsigned_shift(t, c, a);
    proof {
        lemma_ok_shift(view(*t), c as nat, (BOUND() / 2) as nat, c as nat, a as nat);
        lemma_ok_weaken(view(t1), c as nat, (BOUND() / 2 + a) as nat, c as nat, BOUND() as nat);
        lemma_ok_hole_free(view(*t), c as nat, BOUND() as nat);
        law_shift_undo(view(*t), c as nat, a as nat);
    }
    signed_shift(&t1, c, -(a as isize))
}
