// ---- prelude for the term-level units (U1 de Bruijn, U2 evaluator) -------------------------------
// Everything in this file is TRUSTED BASE: stubs and assumed specifications for dependencies that
// are not verified.  The assumption scan of bin/check counts every `external_body`,
// `assume_specification`, `external_type_specification` and `uninterp` below and compares the
// multiset with ledger/trusted_base.json.

// ASSUMPTION: the target has a 64-bit usize/isize (true for x86_64, the platform of this sandbox and of
// gram's released binaries).
global size_of usize == 8;

// num-bigint's BigInt, opaque; its mathematical value is the uninterpreted `bigint_val`.
#[verifier::external_body]
pub struct BigInt { _p: u8 }

pub uninterp spec fn bigint_val(b: BigInt) -> int;

impl Clone for BigInt {
    #[verifier::external_body]
    fn clone(&self) -> (r: Self) ensures r == *self { unimplemented!() }
}

// Rule R3 rewrites the operator sugar `-a`, `a + b`, ... on `&BigInt` operands into these named
// functions (Verus crashes on overloaded operators over references).  Their contracts are the
// assumed semantics of num-bigint: exact integer arithmetic, checked_div = None iff the divisor is
// zero and otherwise the quotient truncated toward zero.
#[verifier::external_body]
pub fn bigint_neg(a: &BigInt) -> (r: BigInt) ensures bigint_val(r) == -bigint_val(*a) { unimplemented!() }
#[verifier::external_body]
pub fn bigint_add(a: &BigInt, b: &BigInt) -> (r: BigInt) ensures bigint_val(r) == bigint_val(*a) + bigint_val(*b) { unimplemented!() }
#[verifier::external_body]
pub fn bigint_sub(a: &BigInt, b: &BigInt) -> (r: BigInt) ensures bigint_val(r) == bigint_val(*a) - bigint_val(*b) { unimplemented!() }
#[verifier::external_body]
pub fn bigint_mul(a: &BigInt, b: &BigInt) -> (r: BigInt) ensures bigint_val(r) == bigint_val(*a) * bigint_val(*b) { unimplemented!() }
#[verifier::external_body]
pub fn bigint_lt(a: &BigInt, b: &BigInt) -> (r: bool) ensures r == (bigint_val(*a) < bigint_val(*b)) { unimplemented!() }
#[verifier::external_body]
pub fn bigint_le(a: &BigInt, b: &BigInt) -> (r: bool) ensures r == (bigint_val(*a) <= bigint_val(*b)) { unimplemented!() }
#[verifier::external_body]
pub fn bigint_eq(a: &BigInt, b: &BigInt) -> (r: bool) ensures r == (bigint_val(*a) == bigint_val(*b)) { unimplemented!() }
#[verifier::external_body]
pub fn bigint_gt(a: &BigInt, b: &BigInt) -> (r: bool) ensures r == (bigint_val(*a) > bigint_val(*b)) { unimplemented!() }
#[verifier::external_body]
pub fn bigint_ge(a: &BigInt, b: &BigInt) -> (r: bool) ensures r == (bigint_val(*a) >= bigint_val(*b)) { unimplemented!() }

// Truncated division on mathematical integers (rounding toward zero), the assumed meaning of
// num-bigint's `/` and `checked_div`.
pub open spec fn trunc_div(a: int, b: int) -> int
    recommends b != 0
{
    if a >= 0 && b > 0 { a / b }
    else if a >= 0 && b < 0 { -(a / (-b)) }
    else if a < 0 && b > 0 { -((-a) / b) }
    else { (-a) / (-b) }
}

impl BigInt {
    #[verifier::external_body]
    pub fn checked_div(&self, v: &BigInt) -> (r: Option<BigInt>)
        ensures
            bigint_val(*v) == 0 ==> r is None,
            bigint_val(*v) != 0 ==> r is Some && bigint_val(r->Some_0) == trunc_div(bigint_val(*self), bigint_val(*v)),
    { unimplemented!() }
}

// RefCell / Ref: signature-only external specifications (they only occur in code that rule R9 replaces or
// that is dead under the precondition).
#[verifier::accept_recursive_types(T)]
#[verifier::external_type_specification]
#[verifier::external_body]
pub struct ExRefCell<T: ?Sized>(std::cell::RefCell<T>);

#[verifier::reject_recursive_types(T)]
#[verifier::external_type_specification]
#[verifier::external_body]
pub struct ExRef<'b, T: ?Sized>(std::cell::Ref<'b, T>);

pub assume_specification<T: ?Sized> [std::cell::RefCell::<T>::borrow] (_0: &std::cell::RefCell<T>) -> std::cell::Ref<'_, T>;

// usize -> isize conversion: succeeds iff the value fits.
pub assume_specification [<isize as TryFrom<usize>>::try_from] (x: usize) -> (r: Result<isize, <isize as TryFrom<usize>>::Error>)
    ensures
        x <= isize::MAX ==> r is Ok && r->Ok_0 == x,
        x > isize::MAX ==> r is Err;

// error::Error: the `reason` field's `dyn` payload is never inspected by the functions under contract
// (R2: `Rc<dyn error::Error>` -> opaque stub type).
#[verifier::external_body]
pub struct DynError { _p: u8 }

pub assume_specification<T> [std::cell::RefCell::<T>::new] (_0: T) -> std::cell::RefCell<T>;
