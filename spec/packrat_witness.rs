// ---- vacuity guards for unit U5 ------------------------------------------------------------------------

spec fn w_lit(v: int) -> PTerm { PTerm { kind: PKind::Lit(v), group: false, kids: p0() } }
spec fn w_sum(a: PTerm, b: PTerm) -> PTerm { PTerm { kind: PKind::Sum, group: false, kids: p2(a, b) } }

// (a) the precondition is satisfiable: an empty memo table satisfies cache_inv, for any token slice;
// (b) the derivation relation is inhabited and says what grammar.y says on `1 + 2` and `(1 + 2)`;
// (c) and it is not trivially true: `1 + 2` is not a derivation of the tokens `1 - 2`, nor of `1 + 2 <more>`.
proof fn witness_u5<'a>(c: Cache<'a>, s: Seq<Token<'a>>, g: Seq<Token<'a>>, d: Seq<Token<'a>>)
    requires
        forall|k: (Nonterminal, usize)| cache_lookup(c, k) is None,
        s.len() == 3, s[0].variant is IntegerLiteral, bigint_val(s[0].variant->IntegerLiteral_0) == 1, s[1].variant is Plus,
        s[2].variant is IntegerLiteral, bigint_val(s[2].variant->IntegerLiteral_0) == 2,
        g.len() == 5, g[0].variant is LeftParen, g[1] == s[0], g[2] == s[1], g[3] == s[2], g[4].variant is RightParen,
        d.len() == 3, d[0] == s[0], d[1].variant is Minus, d[2] == s[2],
    ensures
        cache_inv(c, s),
        shp(Nonterminal::Term, w_sum(w_lit(1), w_lit(2)), s, 0, 3),
        shp(Nonterminal::Term, PTerm { kind: PKind::Sum, group: true, kids: p2(w_lit(1), w_lit(2)) }, g, 0, 5),
        !drv(Nonterminal::Sum, w_sum(w_lit(1), w_lit(2)), d, 0, 3),
        !drv(Nonterminal::Sum, w_sum(w_lit(1), w_lit(2)), g, 1, 5),
{
    let l1 = w_lit(1);
    let l2 = w_lit(2);
    let t = w_sum(l1, l2);
    assert(t.kids[0] == l1 && t.kids[1] == l2);
    // 1 : large_term at 0..1
    assert(drv(Nonterminal::IntegerLiteral, l1, s, 0, 1));
    assert(drv(Nonterminal::Atom, l1, s, 0, 1));
    assert(drv(Nonterminal::SmallTerm, l1, s, 0, 1));
    assert(drv(Nonterminal::MediumTerm, l1, s, 0, 1));
    assert(drv(Nonterminal::LargeTerm, l1, s, 0, 1));
    assert(shp(Nonterminal::LargeTerm, l1, s, 0, 1));
    // 2 : huge_term at 2..3
    assert(drv(Nonterminal::IntegerLiteral, l2, s, 2, 3));
    assert(drv(Nonterminal::Atom, l2, s, 2, 3));
    assert(drv(Nonterminal::SmallTerm, l2, s, 2, 3));
    assert(drv(Nonterminal::MediumTerm, l2, s, 2, 3));
    assert(drv(Nonterminal::LargeTerm, l2, s, 2, 3));
    assert(drv(Nonterminal::HugeTerm, l2, s, 2, 3));
    assert(shp(Nonterminal::HugeTerm, l2, s, 2, 3));
    // 1 + 2 : term at 0..3
    assert(mid(1));
    assert(drv(Nonterminal::Sum, t, s, 0, 3));
    assert(drv(Nonterminal::HugeTerm, t, s, 0, 3));
    assert(drv(Nonterminal::GiantTerm, t, s, 0, 3));
    assert(drv(Nonterminal::JumboTerm, t, s, 0, 3));
    assert(drv(Nonterminal::Term, t, s, 0, 3));
    assert(shp(Nonterminal::Term, t, s, 0, 3));
    // ( 1 + 2 )
    witness_u5_shift(t, s, g);
    let tg = PTerm { kind: PKind::Sum, group: true, kids: p2(l1, l2) };
    lemma_group_intro(t, tg, g, 0, 5);
    assert(grp(tg, g, 0, 5));
    assert(shp(Nonterminal::Term, tg, g, 0, 5));
    // negative instances: every split point fails
    assert forall|m: int| !(#[trigger] mid(m) && shp(Nonterminal::LargeTerm, l1, d, 0, m) && 0 <= m < 3 && d[m].variant is Plus) by {}
    assert forall|m: int| !(#[trigger] mid(m) && shp(Nonterminal::LargeTerm, l1, g, 1, m) && 1 <= m < 5 && g[m].variant is Plus
        && shp(Nonterminal::HugeTerm, l2, g, m + 1, 5)) by {
        if 1 <= m < 5 && g[m].variant is Plus {
            assert(m == 2);
            // `2 )` is not a huge_term: a literal spans exactly one token
            reveal_with_fuel(drv, 8);
            assert(!drv(Nonterminal::HugeTerm, l2, g, 3, 5));
        }
    }
}

// the same three tokens one position further right (inside the parentheses)
proof fn witness_u5_shift<'a>(t: PTerm, s: Seq<Token<'a>>, g: Seq<Token<'a>>)
    requires
        t == w_sum(w_lit(1), w_lit(2)), s.len() == 3, g.len() == 5, g[1] == s[0], g[2] == s[1], g[3] == s[2],
        s[0].variant is IntegerLiteral, bigint_val(s[0].variant->IntegerLiteral_0) == 1, s[1].variant is Plus,
        s[2].variant is IntegerLiteral, bigint_val(s[2].variant->IntegerLiteral_0) == 2,
    ensures shp(Nonterminal::Term, t, g, 1, 4),
{
    let l1 = w_lit(1);
    let l2 = w_lit(2);
    assert(t.kids[0] == l1 && t.kids[1] == l2);
    assert(drv(Nonterminal::IntegerLiteral, l1, g, 1, 2));
    assert(drv(Nonterminal::Atom, l1, g, 1, 2));
    assert(drv(Nonterminal::SmallTerm, l1, g, 1, 2));
    assert(drv(Nonterminal::MediumTerm, l1, g, 1, 2));
    assert(drv(Nonterminal::LargeTerm, l1, g, 1, 2));
    assert(shp(Nonterminal::LargeTerm, l1, g, 1, 2));
    assert(drv(Nonterminal::IntegerLiteral, l2, g, 3, 4));
    assert(drv(Nonterminal::Atom, l2, g, 3, 4));
    assert(drv(Nonterminal::SmallTerm, l2, g, 3, 4));
    assert(drv(Nonterminal::MediumTerm, l2, g, 3, 4));
    assert(drv(Nonterminal::LargeTerm, l2, g, 3, 4));
    assert(drv(Nonterminal::HugeTerm, l2, g, 3, 4));
    assert(shp(Nonterminal::HugeTerm, l2, g, 3, 4));
    assert(mid(2));
    assert(drv(Nonterminal::Sum, t, g, 1, 4));
    assert(drv(Nonterminal::HugeTerm, t, g, 1, 4));
    assert(drv(Nonterminal::GiantTerm, t, g, 1, 4));
    assert(drv(Nonterminal::JumboTerm, t, g, 1, 4));
    assert(drv(Nonterminal::Term, t, g, 1, 4));
}
