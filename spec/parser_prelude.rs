// ---- prelude for the parser-level unit (U4 re-association) -- TRUSTED BASE -------------------------

// ASSUMPTION: 64-bit usize (source ranges are never computed with, only copied).
global size_of usize == 8;

#[verifier::external_body]
pub struct BigInt { _p: u8 }

pub uninterp spec fn bigint_val(b: BigInt) -> int;

impl Clone for BigInt {
    #[verifier::external_body]
    fn clone(&self) -> (r: Self) ensures r == *self { unimplemented!() }
}

// R2: `type ErrorFactory<'a> = Rc<dyn Fn(Option<&'a Path>, &'a str) -> Error + 'a>` -> opaque stub.
// The re-association passes only ever write `errors: vec![]`.
#[verifier::external_body]
pub struct ErrorFactory<'a> { _p: std::marker::PhantomData<&'a u8> }

impl<'a> Clone for ErrorFactory<'a> {
    #[verifier::external_body]
    fn clone(&self) -> (r: Self) ensures r == *self { unimplemented!() }
}

// format::CodeStr is only used to build panic messages.
pub trait CodeStr { fn code_str(&self) -> String; }
impl CodeStr for str {
    #[verifier::external_body]
    fn code_str(&self) -> String { unimplemented!() }
}
