// ---- the three re-association classes and the reference "left-associate every chain" (DESIGN.md 5/C07) ----

// The three operator classes whose chains are parsed right-nested and re-associated afterwards.
pub enum Class { Apps, Muls, Adds }

spec fn in_class(c: Class, k: PKind) -> bool {
    match c {
        Class::Apps => k == PKind::App,
        Class::Muls => k == PKind::Product || k == PKind::Quotient,
        Class::Adds => k == PKind::Sum || k == PKind::Difference,
    }
}

spec fn pq_kind(o: ProductOrQuotient) -> PKind {
    match o { ProductOrQuotient::Product => PKind::Product, ProductOrQuotient::Quotient => PKind::Quotient }
}

spec fn sd_kind(o: SumOrDifference) -> PKind {
    match o { SumOrDifference::Sum => PKind::Sum, SumOrDifference::Difference => PKind::Difference }
}

spec fn mk(op: PKind, a: PTerm, b: PTerm) -> PTerm {
    PTerm { kind: op, group: true, kids: p2(a, b) }
}

// The reference.  A chain `o_0 OP_1 o_1 OP_2 ... OP_n o_n` of one class arrives right-nested,
//     o_0 OP_1 (o_1 OP_2 (... OP_n o_n))           (inner nodes NOT parenthesised),
// and must become the left-nested  ((o_0 OP_1 o_1) OP_2 ...) OP_n o_n.  A parenthesised operand is
// atomic: it never continues the chain, and is re-associated on its own.  Every left operand is
// atomic by the grammar (it comes from a tighter nonterminal).
#[verifier::opaque]
spec fn p_pass(c: Class, t: PTerm) -> PTerm
    decreases t, 0nat
{
    if in_class(c, t.kind) && t.kids.len() == 2 {
        let l = t.kids[0];
        let r = t.kids[1];
        if in_class(c, r.kind) && !r.group {
            p_tail(c, p_pass(c, l), t.kind, r)
        } else {
            mk(t.kind, p_pass(c, l), p_pass(c, r))
        }
    } else {
        PTerm { kind: t.kind, group: t.group, kids: Seq::new(t.kids.len(), |i: int| if 0 <= i < t.kids.len() { p_pass(c, t.kids[i]) } else { t }) }
    }
}

// `acc OP t` where acc is the already left-associated prefix of the chain and t its right-nested rest.
#[verifier::opaque]
spec fn p_tail(c: Class, acc: PTerm, op: PKind, t: PTerm) -> PTerm
    decreases t, 1nat
{
    if in_class(c, t.kind) && t.kids.len() == 2 {
        let l = t.kids[0];
        let r = t.kids[1];
        let acc2 = mk(op, acc, p_pass(c, l));
        if in_class(c, r.kind) && !r.group {
            p_tail(c, acc2, t.kind, r)
        } else {
            mk(t.kind, acc2, p_pass(c, r))
        }
    } else {
        mk(op, acc, p_pass(c, t))
    }
}

// Results are compared modulo the `group` flag of nodes of the class being re-associated (later
// passes never read it); every other flag must be preserved exactly, because the next pass reads it.
#[verifier::opaque]
spec fn p_norm(c: Class, t: PTerm) -> PTerm
    decreases t
{
    PTerm {
        kind: t.kind,
        group: if in_class(c, t.kind) { true } else { t.group },
        kids: Seq::new(t.kids.len(), |i: int| if 0 <= i < t.kids.len() { p_norm(c, t.kids[i]) } else { t }),
    }
}

// ---- unfolding lemmas (broadcast inside the exec functions; the recursive definitions stay hidden) --

broadcast proof fn lemma_npe0(k: PKind, g: bool)
    ensures #[trigger] no_parse_error(PTerm { kind: k, group: g, kids: p0() }) == (k != PKind::ParseError)
{
    reveal(no_parse_error);
}

broadcast proof fn lemma_npe1(k: PKind, g: bool, a: PTerm)
    ensures #[trigger] no_parse_error(PTerm { kind: k, group: g, kids: p1(a) }) == (k != PKind::ParseError && no_parse_error(a))
{
    reveal(no_parse_error);
    let t = PTerm { kind: k, group: g, kids: p1(a) };
    assert(t.kids[0] == a);
    if k != PKind::ParseError && no_parse_error(a) {
        assert forall|i: int| 0 <= i < t.kids.len() implies no_parse_error(#[trigger] t.kids[i]) by { assert(i == 0); }
    }
}

broadcast proof fn lemma_npe2(k: PKind, g: bool, a: PTerm, b: PTerm)
    ensures #[trigger] no_parse_error(PTerm { kind: k, group: g, kids: p2(a, b) }) == (k != PKind::ParseError && no_parse_error(a) && no_parse_error(b))
{
    reveal(no_parse_error);
    let t = PTerm { kind: k, group: g, kids: p2(a, b) };
    assert(t.kids[0] == a);
    assert(t.kids[1] == b);
    if k != PKind::ParseError && no_parse_error(a) && no_parse_error(b) {
        assert forall|i: int| 0 <= i < t.kids.len() implies no_parse_error(#[trigger] t.kids[i]) by { assert(i == 0 || i == 1); }
    }
}

broadcast proof fn lemma_npe3(k: PKind, g: bool, a: PTerm, b: PTerm, e: PTerm)
    ensures #[trigger] no_parse_error(PTerm { kind: k, group: g, kids: p3(a, b, e) }) == (k != PKind::ParseError && no_parse_error(a) && no_parse_error(b) && no_parse_error(e))
{
    reveal(no_parse_error);
    let t = PTerm { kind: k, group: g, kids: p3(a, b, e) };
    assert(t.kids[0] == a);
    assert(t.kids[1] == b);
    assert(t.kids[2] == e);
    if k != PKind::ParseError && no_parse_error(a) && no_parse_error(b) && no_parse_error(e) {
        assert forall|i: int| 0 <= i < t.kids.len() implies no_parse_error(#[trigger] t.kids[i]) by { assert(i == 0 || i == 1 || i == 2); }
    }
}

broadcast proof fn lemma_norm0(c: Class, k: PKind, g: bool)
    ensures #[trigger] p_norm(c, PTerm { kind: k, group: g, kids: p0() }) == (PTerm { kind: k, group: if in_class(c, k) { true } else { g }, kids: p0() })
{
    reveal(p_norm);
    assert(p_norm(c, PTerm { kind: k, group: g, kids: p0() }).kids =~= p0());
}

broadcast proof fn lemma_norm1(c: Class, k: PKind, g: bool, a: PTerm)
    ensures #[trigger] p_norm(c, PTerm { kind: k, group: g, kids: p1(a) }) == (PTerm { kind: k, group: if in_class(c, k) { true } else { g }, kids: p1(p_norm(c, a)) })
{
    reveal(p_norm);
    let t = PTerm { kind: k, group: g, kids: p1(a) };
    assert(t.kids[0] == a);
    assert(p_norm(c, t).kids =~= p1(p_norm(c, a)));
}

broadcast proof fn lemma_norm2(c: Class, k: PKind, g: bool, a: PTerm, b: PTerm)
    ensures #[trigger] p_norm(c, PTerm { kind: k, group: g, kids: p2(a, b) }) == (PTerm { kind: k, group: if in_class(c, k) { true } else { g }, kids: p2(p_norm(c, a), p_norm(c, b)) })
{
    reveal(p_norm);
    let t = PTerm { kind: k, group: g, kids: p2(a, b) };
    assert(t.kids[0] == a);
    assert(t.kids[1] == b);
    assert(p_norm(c, t).kids =~= p2(p_norm(c, a), p_norm(c, b)));
}

broadcast proof fn lemma_norm3(c: Class, k: PKind, g: bool, a: PTerm, b: PTerm, e: PTerm)
    ensures #[trigger] p_norm(c, PTerm { kind: k, group: g, kids: p3(a, b, e) }) == (PTerm { kind: k, group: if in_class(c, k) { true } else { g }, kids: p3(p_norm(c, a), p_norm(c, b), p_norm(c, e)) })
{
    reveal(p_norm);
    let t = PTerm { kind: k, group: g, kids: p3(a, b, e) };
    assert(t.kids[0] == a);
    assert(t.kids[1] == b);
    assert(t.kids[2] == e);
    assert(p_norm(c, t).kids =~= p3(p_norm(c, a), p_norm(c, b), p_norm(c, e)));
}

// p_pass on a node that is NOT in the class: rebuild with the children re-associated.
broadcast proof fn lemma_pass0(c: Class, k: PKind, g: bool)
    ensures #[trigger] p_pass(c, PTerm { kind: k, group: g, kids: p0() }) == (PTerm { kind: k, group: g, kids: p0() })
{
    reveal(p_pass); reveal(p_tail);
    assert(p_pass(c, PTerm { kind: k, group: g, kids: p0() }).kids =~= p0());
}

broadcast proof fn lemma_pass1(c: Class, k: PKind, g: bool, a: PTerm)
    ensures #[trigger] p_pass(c, PTerm { kind: k, group: g, kids: p1(a) }) == (PTerm { kind: k, group: g, kids: p1(p_pass(c, a)) })
{
    reveal(p_pass); reveal(p_tail);
    let t = PTerm { kind: k, group: g, kids: p1(a) };
    assert(t.kids[0] == a);
    assert(t.kids.len() == 1);
    assert(p_pass(c, t).kids =~= p1(p_pass(c, a)));
}

broadcast proof fn lemma_pass2(c: Class, k: PKind, g: bool, a: PTerm, b: PTerm)
    requires !in_class(c, k)
    ensures #[trigger] p_pass(c, PTerm { kind: k, group: g, kids: p2(a, b) }) == (PTerm { kind: k, group: g, kids: p2(p_pass(c, a), p_pass(c, b)) })
{
    reveal(p_pass); reveal(p_tail);
    let t = PTerm { kind: k, group: g, kids: p2(a, b) };
    assert(t.kids[0] == a);
    assert(t.kids[1] == b);
    assert(p_pass(c, t).kids =~= p2(p_pass(c, a), p_pass(c, b)));
}

broadcast proof fn lemma_pass3(c: Class, k: PKind, g: bool, a: PTerm, b: PTerm, e: PTerm)
    ensures #[trigger] p_pass(c, PTerm { kind: k, group: g, kids: p3(a, b, e) }) == (PTerm { kind: k, group: g, kids: p3(p_pass(c, a), p_pass(c, b), p_pass(c, e)) })
{
    reveal(p_pass); reveal(p_tail);
    let t = PTerm { kind: k, group: g, kids: p3(a, b, e) };
    assert(t.kids[0] == a);
    assert(t.kids[1] == b);
    assert(t.kids[2] == e);
    assert(t.kids.len() == 3);
    assert(p_pass(c, t).kids =~= p3(p_pass(c, a), p_pass(c, b), p_pass(c, e)));
}

// p_pass / p_tail on a node of the class.
broadcast proof fn lemma_pass_class(c: Class, k: PKind, g: bool, l: PTerm, r: PTerm)
    requires in_class(c, k)
    ensures #[trigger] p_pass(c, PTerm { kind: k, group: g, kids: p2(l, r) }) == (
        if in_class(c, r.kind) && !r.group { p_tail(c, p_pass(c, l), k, r) } else { mk(k, p_pass(c, l), p_pass(c, r)) })
{
    reveal(p_pass); reveal(p_tail);
    let t = PTerm { kind: k, group: g, kids: p2(l, r) };
    assert(t.kids[0] == l);
    assert(t.kids[1] == r);
    assert(t.kids.len() == 2);
}

broadcast proof fn lemma_tail_class(c: Class, acc: PTerm, op: PKind, k: PKind, g: bool, l: PTerm, r: PTerm)
    requires in_class(c, k)
    ensures #[trigger] p_tail(c, acc, op, PTerm { kind: k, group: g, kids: p2(l, r) }) == (
        if in_class(c, r.kind) && !r.group { p_tail(c, mk(op, acc, p_pass(c, l)), k, r) } else { mk(k, mk(op, acc, p_pass(c, l)), p_pass(c, r)) })
{
    reveal(p_pass); reveal(p_tail);
    let t = PTerm { kind: k, group: g, kids: p2(l, r) };
    assert(t.kids[0] == l);
    assert(t.kids[1] == r);
    assert(t.kids.len() == 2);
}

broadcast proof fn lemma_tail_other(c: Class, acc: PTerm, op: PKind, t: PTerm)
    requires !in_class(c, t.kind)
    ensures #[trigger] p_tail(c, acc, op, t) == mk(op, acc, p_pass(c, t))
{
    reveal(p_pass); reveal(p_tail);
}

// p_norm of p_tail only depends on p_norm of the accumulator.
proof fn lemma_tail_norm_congr(c: Class, a1: PTerm, a2: PTerm, op: PKind, t: PTerm)
    requires p_norm(c, a1) == p_norm(c, a2)
    ensures p_norm(c, p_tail(c, a1, op, t)) == p_norm(c, p_tail(c, a2, op, t))
    decreases t
{
    reveal(p_pass); reveal(p_tail);
    if in_class(c, t.kind) && t.kids.len() == 2 {
        let l = t.kids[0];
        let r = t.kids[1];
        let b1 = mk(op, a1, p_pass(c, l));
        let b2 = mk(op, a2, p_pass(c, l));
        lemma_norm2(c, op, true, a1, p_pass(c, l));
        lemma_norm2(c, op, true, a2, p_pass(c, l));
        assert(p_norm(c, b1) == p_norm(c, b2));
        if in_class(c, r.kind) && !r.group {
            lemma_tail_norm_congr(c, b1, b2, t.kind, r);
        } else {
            lemma_norm2(c, t.kind, true, b1, p_pass(c, r));
            lemma_norm2(c, t.kind, true, b2, p_pass(c, r));
        }
    } else {
        lemma_norm2(c, op, true, a1, p_pass(c, t));
        lemma_norm2(c, op, true, a2, p_pass(c, t));
    }
}

// ---- the normalised reference, as used by the exec contracts ----------------------------------------
// n_pass(c, t) = p_norm(c, p_pass(c, t)) and n_tail(c, na, op, t) = p_norm(c, p_tail(c, na, op, t)) for an
// already normalised accumulator na.  The exec proofs only see the unfolding lemmas below.

#[verifier::opaque]
spec fn n_pass(c: Class, t: PTerm) -> PTerm { p_norm(c, p_pass(c, t)) }

#[verifier::opaque]
spec fn n_tail(c: Class, na: PTerm, op: PKind, t: PTerm) -> PTerm { p_norm(c, p_tail(c, na, op, t)) }

proof fn lemma_norm_idem(c: Class, t: PTerm)
    ensures p_norm(c, p_norm(c, t)) == p_norm(c, t)
    decreases t
{
    reveal(p_norm);
    let n = p_norm(c, t);
    assert forall|i: int| 0 <= i < t.kids.len() implies p_norm(c, #[trigger] n.kids[i]) == n.kids[i] by {
        lemma_norm_idem(c, t.kids[i]);
    }
    assert(p_norm(c, n).kids =~= n.kids);
}

broadcast proof fn lemma_npass0(c: Class, k: PKind, g: bool)
    ensures #[trigger] n_pass(c, PTerm { kind: k, group: g, kids: p0() }) == (PTerm { kind: k, group: if in_class(c, k) { true } else { g }, kids: p0() })
{
    reveal(n_pass);
    lemma_pass0(c, k, g);
    lemma_norm0(c, k, g);
}

broadcast proof fn lemma_npass1(c: Class, k: PKind, g: bool, a: PTerm)
    ensures #[trigger] n_pass(c, PTerm { kind: k, group: g, kids: p1(a) }) == (PTerm { kind: k, group: if in_class(c, k) { true } else { g }, kids: p1(n_pass(c, a)) })
{
    reveal(n_pass);
    lemma_pass1(c, k, g, a);
    lemma_norm1(c, k, g, p_pass(c, a));
}

broadcast proof fn lemma_npass2(c: Class, k: PKind, g: bool, a: PTerm, b: PTerm)
    requires !in_class(c, k)
    ensures #[trigger] n_pass(c, PTerm { kind: k, group: g, kids: p2(a, b) }) == (PTerm { kind: k, group: g, kids: p2(n_pass(c, a), n_pass(c, b)) })
{
    reveal(n_pass);
    lemma_pass2(c, k, g, a, b);
    lemma_norm2(c, k, g, p_pass(c, a), p_pass(c, b));
}

broadcast proof fn lemma_npass3(c: Class, k: PKind, g: bool, a: PTerm, b: PTerm, e: PTerm)
    ensures #[trigger] n_pass(c, PTerm { kind: k, group: g, kids: p3(a, b, e) }) == (PTerm { kind: k, group: if in_class(c, k) { true } else { g }, kids: p3(n_pass(c, a), n_pass(c, b), n_pass(c, e)) })
{
    reveal(n_pass);
    lemma_pass3(c, k, g, a, b, e);
    lemma_norm3(c, k, g, p_pass(c, a), p_pass(c, b), p_pass(c, e));
}

broadcast proof fn lemma_npass_class(c: Class, k: PKind, g: bool, l: PTerm, r: PTerm)
    requires in_class(c, k)
    ensures #[trigger] n_pass(c, PTerm { kind: k, group: g, kids: p2(l, r) }) == (
        if in_class(c, r.kind) && !r.group { n_tail(c, n_pass(c, l), k, r) } else { mk(k, n_pass(c, l), n_pass(c, r)) })
{
    reveal(n_pass);
    reveal(n_tail);
    lemma_pass_class(c, k, g, l, r);
    if in_class(c, r.kind) && !r.group {
        lemma_norm_idem(c, p_pass(c, l));
        lemma_tail_norm_congr(c, p_pass(c, l), p_norm(c, p_pass(c, l)), k, r);
    } else {
        lemma_norm2(c, k, true, p_pass(c, l), p_pass(c, r));
    }
}

broadcast proof fn lemma_ntail_class(c: Class, na: PTerm, op: PKind, k: PKind, g: bool, l: PTerm, r: PTerm)
    requires in_class(c, k), in_class(c, op), p_norm(c, na) == na
    ensures #[trigger] n_tail(c, na, op, PTerm { kind: k, group: g, kids: p2(l, r) }) == (
        if in_class(c, r.kind) && !r.group { n_tail(c, mk(op, na, n_pass(c, l)), k, r) } else { mk(k, mk(op, na, n_pass(c, l)), n_pass(c, r)) })
{
    reveal(n_pass);
    reveal(n_tail);
    lemma_tail_class(c, na, op, k, g, l, r);
    let b1 = mk(op, na, p_pass(c, l));
    let b2 = mk(op, na, p_norm(c, p_pass(c, l)));
    lemma_norm_idem(c, p_pass(c, l));
    lemma_norm2(c, op, true, na, p_pass(c, l));
    lemma_norm2(c, op, true, na, p_norm(c, p_pass(c, l)));
    assert(p_norm(c, b1) == p_norm(c, b2));
    assert(p_norm(c, b1) == b2);
    if in_class(c, r.kind) && !r.group {
        lemma_tail_norm_congr(c, b1, b2, k, r);
    } else {
        lemma_norm2(c, k, true, b1, p_pass(c, r));
    }
}

broadcast proof fn lemma_ntail_other(c: Class, na: PTerm, op: PKind, t: PTerm)
    requires !in_class(c, t.kind), in_class(c, op), p_norm(c, na) == na
    ensures #[trigger] n_tail(c, na, op, t) == mk(op, na, n_pass(c, t))
{
    reveal(n_pass);
    reveal(n_tail);
    lemma_tail_other(c, na, op, t);
    lemma_norm2(c, op, true, na, p_pass(c, t));
}

// normal forms are closed under the constructions used above
broadcast proof fn lemma_npass_normal(c: Class, t: PTerm)
    ensures p_norm(c, #[trigger] n_pass(c, t)) == n_pass(c, t)
{
    reveal(n_pass);
    lemma_norm_idem(c, p_pass(c, t));
}

broadcast proof fn lemma_ntail_normal(c: Class, na: PTerm, op: PKind, t: PTerm)
    ensures p_norm(c, #[trigger] n_tail(c, na, op, t)) == n_tail(c, na, op, t)
{
    reveal(n_tail);
    lemma_norm_idem(c, p_tail(c, na, op, t));
}

broadcast proof fn lemma_norm_normal(c: Class, t: PTerm)
    ensures p_norm(c, #[trigger] p_norm(c, t)) == p_norm(c, t)
{
    lemma_norm_idem(c, t);
}

broadcast group group_parser { lemma_npe0, lemma_npe1, lemma_npe2, lemma_npe3, lemma_norm0, lemma_norm1, lemma_norm2, lemma_norm3,
    lemma_npass0, lemma_npass1, lemma_npass2, lemma_npass3, lemma_npass_class, lemma_ntail_class, lemma_ntail_other,
    lemma_npass_normal, lemma_ntail_normal, lemma_norm_normal }

// ---- sanity lemmas about the REFERENCE itself (guard against a reference that merely mirrors the code) --

// (S1) the result is left-nested: no node of the class has an unparenthesised node of the class as its
// right operand, anywhere in the tree.
#[verifier::opaque]
spec fn p_left_ok(c: Class, t: PTerm) -> bool
    decreases t
{
    &&& (in_class(c, t.kind) && t.kids.len() == 2 ==> !(in_class(c, t.kids[1].kind) && !t.kids[1].group))
    &&& forall|i: int| #![trigger t.kids[i]] 0 <= i < t.kids.len() ==> p_left_ok(c, t.kids[i])
}

// every node of the class is binary (true of every pview image)
#[verifier::opaque]
spec fn p_arity_ok(c: Class, t: PTerm) -> bool
    decreases t
{
    &&& (in_class(c, t.kind) ==> t.kids.len() == 2)
    &&& forall|i: int| #![trigger t.kids[i]] 0 <= i < t.kids.len() ==> p_arity_ok(c, t.kids[i])
}

proof fn lemma_left_ok_mk(c: Class, op: PKind, a: PTerm, b: PTerm)
    requires p_left_ok(c, a), p_left_ok(c, b), !(in_class(c, b.kind) && !b.group),
    ensures p_left_ok(c, mk(op, a, b)),
{
    reveal(p_left_ok);
    let t = mk(op, a, b);
    assert(t.kids[0] == a);
    assert(t.kids[1] == b);
    assert forall|i: int| 0 <= i < t.kids.len() implies p_left_ok(c, #[trigger] t.kids[i]) by { assert(i == 0 || i == 1); }
}

// the reference turns a node of the class into a PARENTHESISED node of the class, and keeps the kind and
// the group flag of every other node
proof fn lemma_pass_shape(c: Class, t: PTerm)
    ensures
        in_class(c, t.kind) && t.kids.len() == 2 ==> in_class(c, p_pass(c, t).kind) && p_pass(c, t).group,
        !(in_class(c, t.kind) && t.kids.len() == 2) ==> p_pass(c, t).kind == t.kind && p_pass(c, t).group == t.group,
    decreases t, 0nat
{
    reveal(p_pass); reveal(p_tail);
    if in_class(c, t.kind) && t.kids.len() == 2 {
        let r = t.kids[1];
        if in_class(c, r.kind) && !r.group { lemma_tail_shape(c, p_pass(c, t.kids[0]), t.kind, r); }
    }
}

proof fn lemma_tail_shape(c: Class, acc: PTerm, op: PKind, t: PTerm)
    requires in_class(c, op)
    ensures in_class(c, p_tail(c, acc, op, t).kind) && p_tail(c, acc, op, t).group,
    decreases t, 1nat
{
    reveal(p_pass); reveal(p_tail);
    if in_class(c, t.kind) && t.kids.len() == 2 {
        let r = t.kids[1];
        if in_class(c, r.kind) && !r.group { lemma_tail_shape(c, mk(op, acc, p_pass(c, t.kids[0])), t.kind, r); }
    }
}

proof fn lemma_pass_left_ok(c: Class, t: PTerm)
    requires p_arity_ok(c, t),
    ensures p_left_ok(c, p_pass(c, t)),
    decreases t, 0nat
{
    reveal(p_pass); reveal(p_tail); reveal(p_arity_ok);
    if in_class(c, t.kind) && t.kids.len() == 2 {
        let l = t.kids[0];
        let r = t.kids[1];
        lemma_pass_left_ok(c, l);
        if in_class(c, r.kind) && !r.group {
            lemma_tail_left_ok(c, p_pass(c, l), t.kind, r);
        } else {
            lemma_pass_left_ok(c, r);
            lemma_pass_shape(c, r);
            lemma_left_ok_mk(c, t.kind, p_pass(c, l), p_pass(c, r));
        }
    } else {
        let r = p_pass(c, t);
        assert forall|i: int| 0 <= i < r.kids.len() implies p_left_ok(c, #[trigger] r.kids[i]) by {
            lemma_pass_left_ok(c, t.kids[i]);
        }
        reveal(p_left_ok);
    }
}

proof fn lemma_tail_left_ok(c: Class, acc: PTerm, op: PKind, t: PTerm)
    requires p_left_ok(c, acc), in_class(c, op), p_arity_ok(c, t),
    ensures p_left_ok(c, p_tail(c, acc, op, t)),
    decreases t, 1nat
{
    reveal(p_pass); reveal(p_tail); reveal_with_fuel(p_arity_ok, 2);
    if in_class(c, t.kind) && t.kids.len() == 2 {
        let l = t.kids[0];
        let r = t.kids[1];
        assert(p_arity_ok(c, l) && p_arity_ok(c, r));
        lemma_pass_left_ok(c, l);
        lemma_pass_shape(c, l);
        // a left operand of the class is binary (arity), hence re-associated into a parenthesised node
        assert(in_class(c, l.kind) ==> l.kids.len() == 2);
        lemma_left_ok_mk(c, op, acc, p_pass(c, l));
        let acc2 = mk(op, acc, p_pass(c, l));
        if in_class(c, r.kind) && !r.group {
            lemma_tail_left_ok(c, acc2, t.kind, r);
        } else {
            lemma_pass_left_ok(c, r);
            lemma_pass_shape(c, r);
            lemma_left_ok_mk(c, t.kind, acc2, p_pass(c, r));
        }
    } else {
        lemma_pass_left_ok(c, t);
        lemma_pass_shape(c, t);
        lemma_left_ok_mk(c, op, acc, p_pass(c, t));
    }
}

// (S2) the in-order sequence of leaves (atoms) is unchanged: re-association only moves parentheses.
spec fn p_leaves(t: PTerm) -> Seq<PKind>
    decreases t, 1nat
{
    if t.kids.len() == 0 { Seq::empty().push(t.kind) } else { p_leaves_of(t, t.kids.len()) }
}

// leaves of the first n children of t
spec fn p_leaves_of(t: PTerm, n: nat) -> Seq<PKind>
    decreases t, 0nat, n
{
    if n == 0 || n > t.kids.len() { Seq::empty() } else { p_leaves_of(t, (n - 1) as nat) + p_leaves(t.kids[n - 1]) }
}

proof fn lemma_leaves_mk(op: PKind, a: PTerm, b: PTerm)
    ensures p_leaves(mk(op, a, b)) == p_leaves(a) + p_leaves(b),
{
    let t = mk(op, a, b);
    assert(t.kids.len() == 2);
    assert(t.kids[0] == a);
    assert(t.kids[1] == b);
    reveal_with_fuel(p_leaves_of, 4);
    assert(p_leaves_of(t, 0) == Seq::<PKind>::empty());
    assert(p_leaves_of(t, 1) == p_leaves_of(t, 0) + p_leaves(a));
    assert(p_leaves_of(t, 2) == p_leaves_of(t, 1) + p_leaves(b));
    assert(Seq::<PKind>::empty() + p_leaves(a) =~= p_leaves(a));
}

proof fn lemma_leaves_of_congr(t: PTerm, r: PTerm, n: nat)
    requires
        r.kids.len() == t.kids.len(),
        n <= t.kids.len(),
        forall|i: int| 0 <= i < t.kids.len() ==> p_leaves(#[trigger] r.kids[i]) == p_leaves(t.kids[i]),
    ensures p_leaves_of(r, n) == p_leaves_of(t, n),
    decreases n
{
    if n > 0 {
        lemma_leaves_of_congr(t, r, (n - 1) as nat);
        assert(p_leaves(r.kids[n - 1]) == p_leaves(t.kids[n - 1]));
    }
}

proof fn lemma_pass_leaves(c: Class, t: PTerm)
    ensures p_leaves(p_pass(c, t)) == p_leaves(t),
    decreases t, 0nat
{
    reveal(p_pass); reveal(p_tail);
    if in_class(c, t.kind) && t.kids.len() == 2 {
        let l = t.kids[0];
        let r = t.kids[1];
        lemma_pass_leaves(c, l);
        // leaves(t) = leaves(l) + leaves(r)
        reveal_with_fuel(p_leaves_of, 4);
        assert(p_leaves_of(t, 1) == p_leaves_of(t, 0) + p_leaves(l));
        assert(p_leaves_of(t, 2) == p_leaves_of(t, 1) + p_leaves(r));
        assert(Seq::<PKind>::empty() + p_leaves(l) =~= p_leaves(l));
        assert(p_leaves(t) == p_leaves(l) + p_leaves(r));
        if in_class(c, r.kind) && !r.group {
            lemma_tail_leaves(c, p_pass(c, l), t.kind, r);
        } else {
            lemma_pass_leaves(c, r);
            lemma_leaves_mk(t.kind, p_pass(c, l), p_pass(c, r));
        }
    } else {
        let r = p_pass(c, t);
        assert(r.kids.len() == t.kids.len());
        assert forall|i: int| 0 <= i < t.kids.len() implies p_leaves(#[trigger] r.kids[i]) == p_leaves(t.kids[i]) by {
            lemma_pass_leaves(c, t.kids[i]);
        }
        lemma_leaves_of_congr(t, r, t.kids.len());
    }
}

proof fn lemma_tail_leaves(c: Class, acc: PTerm, op: PKind, t: PTerm)
    ensures p_leaves(p_tail(c, acc, op, t)) == p_leaves(acc) + p_leaves(t),
    decreases t, 1nat
{
    reveal(p_pass); reveal(p_tail);
    if in_class(c, t.kind) && t.kids.len() == 2 {
        let l = t.kids[0];
        let r = t.kids[1];
        lemma_pass_leaves(c, l);
        reveal_with_fuel(p_leaves_of, 4);
        assert(p_leaves_of(t, 1) == p_leaves_of(t, 0) + p_leaves(l));
        assert(p_leaves_of(t, 2) == p_leaves_of(t, 1) + p_leaves(r));
        assert(Seq::<PKind>::empty() + p_leaves(l) =~= p_leaves(l));
        assert(p_leaves(t) == p_leaves(l) + p_leaves(r));
        let acc2 = mk(op, acc, p_pass(c, l));
        lemma_leaves_mk(op, acc, p_pass(c, l));
        if in_class(c, r.kind) && !r.group {
            lemma_tail_leaves(c, acc2, t.kind, r);
            assert((p_leaves(acc) + p_leaves(l)) + p_leaves(r) =~= p_leaves(acc) + (p_leaves(l) + p_leaves(r)));
        } else {
            lemma_pass_leaves(c, r);
            lemma_leaves_mk(t.kind, acc2, p_pass(c, r));
            assert((p_leaves(acc) + p_leaves(l)) + p_leaves(r) =~= p_leaves(acc) + (p_leaves(l) + p_leaves(r)));
        }
    } else {
        lemma_pass_leaves(c, t);
        lemma_leaves_mk(op, acc, p_pass(c, t));
    }
}
