// ---- unit U6, second half: check_definitions / check_definition (the definition-order check parse() runs on the
// resolved term).  Stubs = TRUSTED BASE -------------------------------------------------------------------------

// evaluator::is_value and term::free_variables are verified under C02 / C11 for terms WITHOUT unresolved holes; the
// term parse() hands to check_definitions still has them, so here they are stubs without contract: ASSUMED total
// (no panic, termination) on every term.  Nothing about their results is used.
#[verifier::external_body]
fn is_value<'a>(term: &term::Term<'a>) -> bool { unimplemented!() }

#[verifier::external_body]
fn free_variables<'a>(term: &term::Term<'a>, cutoff: usize, variables: &mut HashSet<usize>) { unimplemented!() }

// an upper bound on what `depth` can grow to while check_definitions walks a term: one per binder crossed
pub open spec fn cd_depth(t: term::Term) -> nat
    decreases t
{
    match t.variant {
        term::Variant::Lambda(_, _, a, b) | term::Variant::Pi(_, _, a, b) => if cd_depth(*a) >= 1 + cd_depth(*b) { cd_depth(*a) } else { 1 + cd_depth(*b) },
        term::Variant::Application(a, b) | term::Variant::Sum(a, b) | term::Variant::Difference(a, b) | term::Variant::Product(a, b)
        | term::Variant::Quotient(a, b) | term::Variant::LessThan(a, b) | term::Variant::LessThanOrEqualTo(a, b) | term::Variant::EqualTo(a, b)
        | term::Variant::GreaterThan(a, b) | term::Variant::GreaterThanOrEqualTo(a, b) => if cd_depth(*a) >= cd_depth(*b) { cd_depth(*a) } else { cd_depth(*b) },
        term::Variant::Negation(a) => cd_depth(*a),
        term::Variant::If(a, b, c) => {
            let m = if cd_depth(*a) >= cd_depth(*b) { cd_depth(*a) } else { cd_depth(*b) };
            if m >= cd_depth(*c) { m } else { cd_depth(*c) }
        }
        term::Variant::Let(defs, body) => defs@.len() + cd_depth(*body),
        _ => 0,
    }
}

// a finite set of indices below n has at most n members (termination measure of check_definition)
proof fn lemma_bounded_set_len(s: Set<usize>, n: nat)
    requires forall|x: usize| s.contains(x) ==> x < n
    ensures s.len() <= n
    decreases n
{
    if n == 0 {
        assert(s =~= Set::<usize>::empty());
    } else {
        let y = (n - 1) as usize;
        let s2 = s.remove(y);
        assert forall|x: usize| s2.contains(x) implies x < n - 1 by { assert(s.contains(x)); }
        lemma_bounded_set_len(s2, (n - 1) as nat);
        broadcast use vstd::set::group_set_lemmas;
        if s.contains(y) { assert(s2.insert(y) =~= s); }
    }
}
