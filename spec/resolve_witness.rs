// ---- vacuity guards for unit U6 ------------------------------------------------------------------------

spec fn w_var(x: Seq<char>) -> PTerm { PTerm { kind: PKind::Variable(x), group: false, kids: p0() } }
spec fn w_lam(x: Seq<char>, b: PTerm) -> PTerm { PTerm { kind: PKind::Lambda(x, false, false), group: false, kids: p1(b) } }
spec fn w_let(x: Seq<char>, d: PTerm, b: PTerm) -> PTerm { PTerm { kind: PKind::Let(x, false), group: false, kids: p2(d, b) } }

// (a) the precondition is satisfiable (empty scope at depth 0);
// (b) the translation says what C08 says on  x => y => x  (index 1),  on the group  x = y; y = x; x  (both
//     definitions see both names) and on an unbound name (not scoped);
// (c) and `_` never binds: in  _ => _  the occurrence is a hole.
proof fn witness_u6(x: Seq<char>, y: Seq<char>)
    requires x != y, x != placeholder(), y != placeholder(),
    ensures
        env_ok(Map::<Seq<char>, usize>::empty(), 0),
        resolve(w_lam(x, w_lam(y, w_var(x))), Map::empty(), 0)
            == term::STerm::Node(term::Kind::Lambda(false), term::s2(term::STerm::Hole,
                term::STerm::Node(term::Kind::Lambda(false), term::s2(term::STerm::Hole, term::STerm::Var(1))))),
        scoped(w_lam(x, w_lam(y, w_var(x))), Set::empty()),
        !scoped(w_lam(x, w_var(y)), Set::empty()),
        !scoped(w_lam(x, w_lam(x, w_var(x))), Set::empty()),
        resolve(w_lam(placeholder(), w_var(placeholder())), Map::empty(), 0)
            == term::STerm::Node(term::Kind::Lambda(false), term::s2(term::STerm::Hole, term::STerm::Hole)),
        resolve(w_let(x, w_var(y), w_let(y, w_var(x), w_var(x))), Map::empty(), 0)
            == term::STerm::Node(term::Kind::Let, seq![term::STerm::Hole, term::STerm::Hole, term::STerm::Var(0), term::STerm::Var(1), term::STerm::Var(1)]),
{
    reveal_with_fuel(resolve, 3);
    reveal_with_fuel(scoped, 3);
    let m = Map::<Seq<char>, usize>::empty();
    let vx = w_var(x);
    let inner = w_lam(y, vx);
    let outer = w_lam(x, inner);
    lemma_kids(inner);
    lemma_kids(outer);
    assert(inner.kids[0] == vx && outer.kids[0] == inner);
    let m1 = bind(m, x, 0);
    let m2 = bind(m1, y, 1);
    assert(m2.dom().contains(x) && m2[x] == 0);
    assert(resolve(vx, m2, 2) == term::STerm::Var(1));
    assert(resolve(inner, m1, 1) == term::STerm::Node(term::Kind::Lambda(false), term::s2(term::STerm::Hole, term::STerm::Var(1))));
    // scoped / not scoped
    let d1 = dom_bind(Set::<Seq<char>>::empty(), x);
    let d2 = dom_bind(d1, y);
    assert(scoped(vx, d2));
    assert(scoped(inner, d1));
    let bad = w_lam(x, w_var(y));
    lemma_kids(bad);
    assert(bad.kids[0] == w_var(y));
    assert(!scoped(w_var(y), d1));
    let shadow_inner = w_lam(x, vx);
    let shadow = w_lam(x, shadow_inner);
    lemma_kids(shadow);
    assert(shadow.kids[0] == shadow_inner);
    assert(!fresh(x, d1));
    assert(!scoped(shadow_inner, d1));
    // placeholder
    let ph = w_lam(placeholder(), w_var(placeholder()));
    lemma_kids(ph);
    assert(ph.kids[0] == w_var(placeholder()));
    assert(bind(m, placeholder(), 0) == m);
    assert(resolve(w_var(placeholder()), m, 1) == term::STerm::Hole);
    // the group  x = y; y = x; x
    let l2 = w_let(y, vx, vx);
    let l1 = w_let(x, w_var(y), l2);
    reveal_with_fuel(let_len, 3);
    reveal_with_fuel(let_at, 3);
    reveal_with_fuel(bind_group, 3);
    assert(l1.kids[1] == l2 && l1.kids[0] == w_var(y) && l2.kids[0] == vx && l2.kids[1] == vx);
    assert(is_let(l1) && is_let(l2) && !is_let(vx));
    assert(let_len(l1) == 2);
    assert(let_at(l1, 1) == l2 && let_at(l1, 2) == vx);
    let g = bind_group(m, l1, 0, 2);
    assert(g == m.insert(x, 0usize).insert(y, 1usize));
    lemma_chain(l1, 0);
    lemma_chain(l1, 1);
    let want = seq![term::STerm::Hole, term::STerm::Hole, term::STerm::Var(0), term::STerm::Var(1), term::STerm::Var(1)];
    let got = resolve(l1, m, 0);
    assert(got is Node && got->Node_0 == term::Kind::Let);
    assert(resolve(w_var(y), g, 2) == term::STerm::Var(0));
    assert(resolve(vx, g, 2) == term::STerm::Var(1));
    assert(let_ann(l1, 0) is None && let_ann(l1, 1) is None);
    assert(let_def(l1, 0) == w_var(y) && let_def(l1, 1) == vx && let_inner(l1) == vx);
    assert(got->Node_1 =~= want);
}
