// ---- unit U7: what parse() as a whole guarantees (the contracts of U5, U4 and U6 put together) -------------

// the initial context: name i of the `context` slice is bound at depth i
spec fn initial_env<'a>(names: Seq<&'a str>, k: nat) -> Env
    decreases k
{
    if k == 0 || k > names.len() { Map::empty() } else { initial_env(names, (k - 1) as nat).insert(names[k - 1]@, (k - 1) as usize) }
}

spec fn names_ok<'a>(names: Seq<&'a str>) -> bool {
    names.len() < 0x1_0000_0000
    && (forall|i: int, j: int| 0 <= i < j < names.len() ==> names[i]@ != names[j]@)
    && (forall|i: int| 0 <= i < names.len() ==> (#[trigger] names[i])@ != placeholder())
}

// R19: `context.iter().enumerate().map(|(i, variable)| (*variable, i)).collect()` -> stub (TRUSTED: builds the map
// name_i -> i; with pairwise distinct names its length is the length of the slice)
#[verifier::external_body]
fn context_from_names<'a>(names: &[&'a str]) -> (r: Context<'a>)
    ensures
        ctx_map(r) == initial_env(names@, names@.len()),
        names_ok(names@) ==> ctx_len(r) == names@.len(),
{ unimplemented!() }

pub uninterp spec fn ctx_len<'a>(c: Context<'a>) -> nat;

impl<'a> Context<'a> {
    #[verifier::external_body]
    fn len(&self) -> (r: usize)
        ensures r == ctx_len(*self),
    { unimplemented!() }
}

proof fn lemma_initial_env<'a>(names: Seq<&'a str>, k: nat)
    requires names_ok(names), k <= names.len(),
    ensures env_ok(initial_env(names, k), k),
    decreases k,
{
    if k > 0 {
        lemma_initial_env(names, (k - 1) as nat);
        let m = initial_env(names, (k - 1) as nat);
        assert(initial_env(names, k) == m.insert(names[k - 1]@, (k - 1) as usize));
    }
}

// check_definitions (definition order, C01): in the C08 flavour of this unit the stub carries the contract the real
// function is verified against in unit U6 (it only ever pushes errors; its assert_eq! on hole shifts cannot fire on the
// term resolve_variables returns); in the C07 flavour it has no contract.  (The line below is filled in by the weaver.)
$CHECK_DEFINITIONS_STUB

// ASSUMPTION (physical): walking a resolved term from the depth of the context cannot push `depth` past usize::MAX -- every
// binder of the term and every entry of the name map is a distinct heap object
#[verifier::external_body]
proof fn axiom_depth_fits<'a>(t: &term::Term<'a>, c: &Context<'a>)
    ensures ctx_len(*c) + cd_depth(*t) < usize::MAX,
{
}

// R16: the rejecting exit of parse(): which messages it carries is outside the property
#[verifier::external_body]
fn parse_rejected<'a>() -> (r: Result<term::Term<'a>, Vec<Error>>)
    ensures r is Err,
{ unimplemented!() }

// ASSUMPTION (physical): a parser tree has fewer than 2^61 nodes -- every node is a distinct heap object
#[verifier::external_body]
proof fn axiom_tree_fits(t: PTerm)
    ensures psize(t) < 0x2000_0000_0000_0000,
{
}

// ---- the re-association passes keep a tree free of ParseError nodes -----------------------------------
proof fn lemma_pass_npe(c: Class, t: PTerm)
    requires no_parse_error(t),
    ensures no_parse_error(p_pass(c, t)),
    decreases t, 0nat,
{
    reveal(no_parse_error);
    reveal(p_pass);
    reveal(p_tail);
    if in_class(c, t.kind) && t.kids.len() == 2 {
        let l = t.kids[0];
        let r = t.kids[1];
        assert(no_parse_error(l) && no_parse_error(r));
        assert(t.kind != PKind::ParseError);
        lemma_pass_npe(c, l);
        if in_class(c, r.kind) && !r.group {
            lemma_tail_npe(c, p_pass(c, l), t.kind, r);
            assert(p_pass(c, t) == p_tail(c, p_pass(c, l), t.kind, r));
        } else {
            lemma_pass_npe(c, r);
            lemma_mk_npe(t.kind, p_pass(c, l), p_pass(c, r));
            assert(p_pass(c, t) == mk(t.kind, p_pass(c, l), p_pass(c, r)));
        }
    } else {
        let u = p_pass(c, t);
        assert(u.kind == t.kind && u.kids.len() == t.kids.len());
        assert forall|i: int| 0 <= i < u.kids.len() implies no_parse_error(#[trigger] u.kids[i]) by {
            assert(no_parse_error(t.kids[i]));
            lemma_pass_npe(c, t.kids[i]);
            assert(u.kids[i] == p_pass(c, t.kids[i]));
        }
        assert(no_parse_error(u));
    }
}

proof fn lemma_mk_npe(op: PKind, a: PTerm, b: PTerm)
    requires op != PKind::ParseError, no_parse_error(a), no_parse_error(b),
    ensures no_parse_error(mk(op, a, b)),
{
    reveal(no_parse_error);
    let u = mk(op, a, b);
    assert(u.kids[0] == a && u.kids[1] == b);
    assert forall|i: int| 0 <= i < u.kids.len() implies no_parse_error(#[trigger] u.kids[i]) by { assert(i == 0 || i == 1); }
}

proof fn lemma_tail_npe(c: Class, acc: PTerm, op: PKind, t: PTerm)
    requires no_parse_error(acc), no_parse_error(t), op != PKind::ParseError,
    ensures no_parse_error(p_tail(c, acc, op, t)),
    decreases t, 1nat,
{
    reveal(no_parse_error);
    reveal(p_tail);
    reveal(p_pass);
    if in_class(c, t.kind) && t.kids.len() == 2 {
        let l = t.kids[0];
        let r = t.kids[1];
        lemma_pass_npe(c, l);
        lemma_mk_npe(op, acc, p_pass(c, l));
        let acc2 = mk(op, acc, p_pass(c, l));
        if in_class(c, r.kind) && !r.group {
            lemma_tail_npe(c, acc2, t.kind, r);
        } else {
            lemma_pass_npe(c, r);
            lemma_mk_npe(t.kind, acc2, p_pass(c, r));
        }
    } else {
        lemma_pass_npe(c, t);
        lemma_mk_npe(op, acc, p_pass(c, t));
    }
}

proof fn lemma_norm_npe(c: Class, t: PTerm)
    ensures no_parse_error(p_norm(c, t)) == no_parse_error(t),
    decreases t,
{
    reveal(no_parse_error);
    reveal(p_norm);
    let u = p_norm(c, t);
    assert(u.kids.len() == t.kids.len());
    assert forall|i: int| 0 <= i < t.kids.len() implies no_parse_error(#[trigger] u.kids[i]) == no_parse_error(t.kids[i]) by { lemma_norm_npe(c, t.kids[i]); }
    if no_parse_error(t) {
        assert forall|i: int| 0 <= i < u.kids.len() implies no_parse_error(#[trigger] u.kids[i]) by { assert(no_parse_error(t.kids[i])); }
    }
    if no_parse_error(u) {
        assert forall|i: int| 0 <= i < t.kids.len() implies no_parse_error(#[trigger] t.kids[i]) by { assert(no_parse_error(u.kids[i])); }
    }
}

// one pass, as its contract states it: the result (modulo the flags of its class) is the reference pass of the input
spec fn pass_ok(c: Class, before: PTerm, after: PTerm) -> bool { p_norm(c, after) == n_pass(c, before) }

proof fn lemma_pass_ok_npe(c: Class, before: PTerm, after: PTerm)
    requires pass_ok(c, before, after), no_parse_error(before),
    ensures no_parse_error(after),
{
    reveal(n_pass);
    lemma_pass_npe(c, before);
    lemma_norm_npe(c, p_pass(c, before));
    lemma_norm_npe(c, after);
}

// ---- ACCEPTED means: sentence of grammar.y, derivation, left-associated chains, names resolved ---------
spec fn all_classes(c1: Class, c2: Class, c3: Class) -> bool { c1 != c2 && c1 != c3 && c2 != c3 }

// C07, at the point where parse() hands the tree to resolve_variables
spec fn syntax_ok<'a>(toks: Seq<Token<'a>>, raw: PTerm, c1: Class, t1: PTerm, c2: Class, t2: PTerm, c3: Class, t3: PTerm) -> bool {
    &&& shp(Nonterminal::Term, raw, toks, 0, toks.len() as int)     // the tokens are a sentence and raw is its derivation tree
    &&& all_classes(c1, c2, c3)                                      // each of the three chain classes is left-associated by one pass
    &&& pass_ok(c1, raw, t1)
    &&& pass_ok(c2, t1, t2)
    &&& pass_ok(c3, t2, t3)
}

// C08, for the value parse() returns
spec fn resolved_ok<'a>(names: Seq<&'a str>, t3: PTerm, v: term::STerm) -> bool {
    &&& scoped(t3, initial_env(names, names.len()).dom())           // every name is in scope, none re-bound
    &&& v == resolve(t3, initial_env(names, names.len()), names.len())   // every occurrence has the index of its binder
}
