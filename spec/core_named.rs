// ---- agreement with capture-avoiding substitution on NAMED terms (first sentence of C11) -------------
// Named terms, their translation to de Bruijn terms in a context of names, naive substitution under the
// usual side condition (no binder of the term is the substituted name or a free name of the inserted
// term), and the theorem
//     to_db(ctx, n[x := m]) == s_open(to_db(x :: ctx, n), 0, to_db(ctx, m), 0)
// proved in the generalised form needed for the induction (lemma_named_subst).

pub enum NTerm {
    NVar(int),                          // a name
    NNode(Kind, Seq<int>, Seq<NTerm>),  // constructor, the names it binds, children
}

// first position of x in ctx (position 0 = innermost binder)
pub open spec fn lookup(ctx: Seq<int>, x: int) -> Option<nat>
    decreases ctx.len()
{
    if ctx.len() == 0 { None }
    else if ctx[0] == x { Some(0nat) }
    else { match lookup(ctx.drop_first(), x) { Some(i) => Some(i + 1), None => None } }
}

pub open spec fn rev(s: Seq<int>) -> Seq<int> { Seq::new(s.len(), |i: int| s[s.len() - 1 - i]) }

// the context in which child i of a node lives: a group x_0..x_{m-1} puts x_{m-1} innermost
pub open spec fn ext(k: Kind, n: nat, i: int, names: Seq<int>, ctx: Seq<int>) -> Seq<int> {
    if binds(k, n, i) > 0 { rev(names) + ctx } else { ctx }
}

// a node binds exactly as many names as `binds` says, in every child that is under binders
#[verifier::opaque]
pub open spec fn n_wf(n: NTerm) -> bool
    decreases n
{
    match n {
        NTerm::NVar(_) => true,
        NTerm::NNode(k, names, kids) => forall|i: int| #![trigger kids[i]] 0 <= i < kids.len() ==>
            (binds(k, kids.len(), i) > 0 ==> names.len() == binds(k, kids.len(), i)) && n_wf(kids[i]),
    }
}

#[verifier::opaque]
pub open spec fn to_db(ctx: Seq<int>, n: NTerm) -> STerm
    decreases n
{
    match n {
        NTerm::NVar(x) => match lookup(ctx, x) { Some(i) => STerm::Var(i), None => STerm::Hole },
        NTerm::NNode(k, names, kids) => STerm::Node(k, Seq::new(kids.len(), |i: int|
            if 0 <= i < kids.len() { to_db(ext(k, kids.len(), i, names, ctx), kids[i]) } else { STerm::Hole })),
    }
}

// every name of n is bound by ctx
#[verifier::opaque]
pub open spec fn n_scoped(ctx: Seq<int>, n: NTerm) -> bool
    decreases n
{
    match n {
        NTerm::NVar(x) => lookup(ctx, x) is Some,
        NTerm::NNode(k, names, kids) => forall|i: int| #![trigger kids[i]] 0 <= i < kids.len() ==> n_scoped(ext(k, kids.len(), i, names, ctx), kids[i]),
    }
}

// y is not a FREE name of n (a = the binders of n crossed so far)
#[verifier::opaque]
pub open spec fn n_avoids(a: Seq<int>, n: NTerm, y: int) -> bool
    decreases n
{
    match n {
        NTerm::NVar(z) => z != y || lookup(a, z) is Some,
        NTerm::NNode(k, names, kids) => forall|i: int| #![trigger kids[i]] 0 <= i < kids.len() ==> n_avoids(ext(k, kids.len(), i, names, a), kids[i], y),
    }
}

// naive substitution
#[verifier::opaque]
pub open spec fn n_subst(n: NTerm, x: int, m: NTerm) -> NTerm
    decreases n
{
    match n {
        NTerm::NVar(y) => if y == x { m } else { n },
        NTerm::NNode(k, names, kids) => NTerm::NNode(k, names, Seq::new(kids.len(), |i: int|
            if 0 <= i < kids.len() { n_subst(kids[i], x, m) } else { n })),
    }
}

// the side condition: no binder of n is x or a free name of m
#[verifier::opaque]
pub open spec fn n_binders_ok(n: NTerm, x: int, m: NTerm) -> bool
    decreases n
{
    match n {
        NTerm::NVar(_) => true,
        NTerm::NNode(k, names, kids) => {
            &&& forall|j: int| 0 <= j < names.len() ==> #[trigger] names[j] != x && n_avoids(Seq::empty(), m, names[j])
            &&& forall|i: int| #![trigger kids[i]] 0 <= i < kids.len() ==> n_binders_ok(kids[i], x, m)
        },
    }
}

// ---- lookup in concatenated contexts ----------------------------------------------------------------

pub proof fn lemma_lookup_some(a: Seq<int>, y: int)
    ensures
        lookup(a, y) is Some ==> lookup(a, y).unwrap() < a.len() && a[lookup(a, y).unwrap() as int] == y,
        lookup(a, y) is None ==> forall|i: int| 0 <= i < a.len() ==> a[i] != y,
    decreases a.len()
{
    if a.len() > 0 && a[0] != y {
        lemma_lookup_some(a.drop_first(), y);
        if lookup(a, y) is None {
            assert forall|i: int| 0 <= i < a.len() implies a[i] != y by {
                if i > 0 { assert(a.drop_first()[i - 1] == a[i]); }
            }
        }
    }
}

pub proof fn lemma_lookup_append(a: Seq<int>, b: Seq<int>, y: int)
    ensures lookup(a + b, y) == (match lookup(a, y) {
        Some(i) => Some(i),
        None => match lookup(b, y) { Some(i) => Some(a.len() + i), None => None },
    }),
    decreases a.len()
{
    if a.len() == 0 {
        assert(a + b =~= b);
    } else {
        assert((a + b)[0] == a[0]);
        assert((a + b).drop_first() =~= a.drop_first() + b);
        if a[0] != y {
            lemma_lookup_append(a.drop_first(), b, y);
        }
    }
}

pub proof fn lemma_lookup_absent(a: Seq<int>, y: int)
    requires forall|i: int| 0 <= i < a.len() ==> a[i] != y,
    ensures lookup(a, y) is None,
    decreases a.len()
{
    if a.len() > 0 {
        assert forall|i: int| 0 <= i < a.drop_first().len() implies a.drop_first()[i] != y by { assert(a.drop_first()[i] == a[i + 1]); }
        lemma_lookup_absent(a.drop_first(), y);
    }
}

// ---- weakening: inserting binders `pre` that are not free names of m shifts the translation ---------

pub proof fn lemma_named_weaken(a: Seq<int>, pre: Seq<int>, post: Seq<int>, m: NTerm)
    requires
        n_wf(m),
        n_scoped(a + post, m),
        forall|j: int| 0 <= j < pre.len() ==> n_avoids(a, m, #[trigger] pre[j]),
    ensures
        s_shift(to_db(a + post, m), a.len(), pre.len() as int) == Some(to_db(a + pre + post, m)),
    decreases m
{
    reveal(n_wf); reveal(to_db); reveal(n_scoped); reveal(n_avoids); reveal(s_shift);
    match m {
        NTerm::NVar(z) => {
            lemma_lookup_append(a, post, z);
            lemma_lookup_append(a + pre, post, z);
            lemma_lookup_append(a, pre, z);
            lemma_lookup_some(a, z);
            if lookup(a, z) is None {
                assert forall|j: int| 0 <= j < pre.len() implies pre[j] != z by {
                    assert(n_avoids(a, m, pre[j]));
                }
                lemma_lookup_absent(pre, z);
            }
        }
        NTerm::NNode(k, names, kids) => {
            let t = to_db(a + post, m);
            let r = to_db(a + pre + post, m);
            let tk = t->Node_1;
            let rk = r->Node_1;
            assert(tk.len() == kids.len() && rk.len() == kids.len());
            assert forall|i: int| 0 <= i < tk.len() implies s_shift(#[trigger] tk[i], a.len() + binds(k, tk.len(), i), pre.len() as int) == Some(rk[i]) by {
                let b = binds(k, kids.len(), i);
                let a2 = ext(k, kids.len(), i, names, a);
                assert(n_wf(kids[i]));
                assert(n_scoped(ext(k, kids.len(), i, names, a + post), kids[i]));
                assert(ext(k, kids.len(), i, names, a + post) =~= a2 + post);
                assert(ext(k, kids.len(), i, names, a + pre + post) =~= a2 + pre + post);
                assert(a2.len() == a.len() + b);
                assert forall|j: int| 0 <= j < pre.len() implies n_avoids(a2, kids[i], #[trigger] pre[j]) by {
                    assert(n_avoids(a, m, pre[j]));
                }
                lemma_named_weaken(a2, pre, post, kids[i]);
                assert(tk[i] == to_db(a2 + post, kids[i]));
                assert(rk[i] == to_db(a2 + pre + post, kids[i]));
            }
            lemma_shift_node(k, tk, rk, a.len(), pre.len() as int);
        }
    }
}

// ---- the theorem ------------------------------------------------------------------------------------
// pre = the binders of n crossed so far (innermost first), x the substituted name, post the outer context.

pub proof fn lemma_named_subst(pre: Seq<int>, x: int, post: Seq<int>, n: NTerm, m: NTerm)
    requires
        n_wf(n),
        n_wf(m),
        n_scoped(post, m),
        n_binders_ok(n, x, m),
        forall|j: int| 0 <= j < pre.len() ==> #[trigger] pre[j] != x && n_avoids(Seq::empty(), m, pre[j]),
    ensures
        to_db(pre + post, n_subst(n, x, m))
            == s_open(to_db(pre + seq![x] + post, n), pre.len(), to_db(post, m), pre.len()),
    decreases n
{
    reveal(n_wf); reveal(to_db); reveal(n_subst); reveal(n_binders_ok); reveal(s_open);
    let d = pre.len();
    match n {
        NTerm::NVar(y) => {
            lemma_lookup_append(pre, seq![x] + post, y);
            lemma_lookup_append(pre, post, y);
            lemma_lookup_append(seq![x], post, y);
            assert(pre + seq![x] + post =~= pre + (seq![x] + post));
            lemma_lookup_some(pre, y);
            if y == x {
                // x is not in pre, so it resolves to index d and the inserted term is raised by d
                assert(lookup(pre, x) is None) by {
                    assert forall|j: int| 0 <= j < pre.len() implies pre[j] != x by {}
                    lemma_lookup_absent(pre, x);
                }
                assert(lookup(seq![x], x) == Some(0nat)) by { reveal_with_fuel(lookup, 2); }
                assert(Seq::<int>::empty() + post =~= post);
                assert(Seq::<int>::empty() + pre + post =~= pre + post);
                lemma_named_weaken(Seq::empty(), pre, post, m);
                assert(to_db(pre + seq![x] + post, n) == STerm::Var(d));
            } else {
                assert(lookup(seq![x], y) is None) by { reveal_with_fuel(lookup, 2); }
            }
        }
        NTerm::NNode(k, names, kids) => {
            let lhs = to_db(pre + post, n_subst(n, x, m));
            let t = to_db(pre + seq![x] + post, n);
            let rhs = s_open(t, d, to_db(post, m), d);
            let sk = n_subst(n, x, m)->NNode_2;
            let lk = lhs->Node_1;
            let tk = t->Node_1;
            let rk = rhs->Node_1;
            assert(sk.len() == kids.len() && lk.len() == kids.len() && tk.len() == kids.len() && rk.len() == kids.len());
            assert forall|i: int| 0 <= i < kids.len() implies lk[i] == rk[i] by {
                let b = binds(k, kids.len(), i);
                let pre2 = ext(k, kids.len(), i, names, pre);
                assert(sk[i] == n_subst(kids[i], x, m));
                assert(ext(k, kids.len(), i, names, pre + post) =~= pre2 + post);
                assert(ext(k, kids.len(), i, names, pre + seq![x] + post) =~= pre2 + seq![x] + post);
                assert(pre2.len() == d + b);
                assert forall|j: int| 0 <= j < pre2.len() implies #[trigger] pre2[j] != x && n_avoids(Seq::empty(), m, pre2[j]) by {
                    if b > 0 {
                        if j < names.len() { assert(pre2[j] == names[names.len() - 1 - j]); }
                        else { assert(pre2[j] == pre[j - names.len()]); }
                    }
                }
                lemma_named_subst(pre2, x, post, kids[i], m);
                assert(lk[i] == to_db(pre2 + post, n_subst(kids[i], x, m)));
                assert(tk[i] == to_db(pre2 + seq![x] + post, kids[i]));
                assert(rk[i] == s_open(tk[i], d + b, to_db(post, m), d + b));
            }
            assert(lk =~= rk);
        }
    }
}

// The headline of C11 as usually stated: beta-reducing (\x. n) m on named terms and on their de Bruijn
// translations agree, whenever the binders of n avoid x and the free names of m.
pub proof fn theorem_open_is_capture_avoiding_substitution(ctx: Seq<int>, x: int, n: NTerm, m: NTerm)
    requires
        n_wf(n),
        n_wf(m),
        n_scoped(ctx, m),
        n_binders_ok(n, x, m),
    ensures
        to_db(ctx, n_subst(n, x, m)) == s_open(to_db(seq![x] + ctx, n), 0, to_db(ctx, m), 0),
{
    assert(Seq::<int>::empty() + ctx =~= ctx);
    assert(Seq::<int>::empty() + seq![x] + ctx =~= seq![x] + ctx);
    lemma_named_subst(Seq::empty(), x, ctx, n, m);
}
