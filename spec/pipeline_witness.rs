// ---- vacuity guard for unit U7: after a call of parse() `false` must not be provable (must-fail job, every run) ----
fn canary_pipeline<'a>(source_path: SourcePath<'a>, source_contents: &'a str, tokens: &'a [Token<'a>], context: &[&'a str])
    requires names_ok(context@),
{
    let r = parse(source_path, source_contents, tokens, context);
    assert(false);
}
