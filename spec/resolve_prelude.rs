// ---- prelude of unit U6 (resolve_variables) -- TRUSTED BASE -------------------------------------------

// R2: `Option<&'a Path>` (only ever passed on to the error constructors) -> opaque Copy type
#[verifier::external_body]
#[derive(Clone, Copy)]
pub struct SourcePath<'a> { _p: std::marker::PhantomData<&'a u8> }

// R2: `ErrorFactory` (field type of parser::Term) and error::Error are opaque
#[verifier::external_body]
pub struct ErrorFactory<'a> { _p: std::marker::PhantomData<&'a u8> }
impl<'a> Clone for ErrorFactory<'a> {
    #[verifier::external_body]
    fn clone(&self) -> (r: Self) ensures r == *self { unimplemented!() }
}
#[verifier::external_body]
pub struct Error { _p: u8 }

// format::CodeStr is only used to build panic messages.
pub trait CodeStr { fn code_str(&self) -> String; }
impl CodeStr for str {
    #[verifier::external_body]
    fn code_str(&self) -> String { unimplemented!() }
}

// R15: `throw::<Error>(&format!(..), source_path, Some(&listing(..)), None)` -> opaque value; only the fact
// that an error is pushed matters
#[verifier::external_body]
fn opaque_error() -> Error { unimplemented!() }

// R1: `Option<Rc<Term>>::clone` (vstd's specification of Option::clone does not say that the clone of an Rc is the
// same Rc) -> stub with Rust's semantics
#[verifier::external_body]
fn clone_option_rc<'a>(o: &Option<Rc<Term<'a>>>) -> (r: Option<Rc<Term<'a>>>)
    ensures r == *o,
{ unimplemented!() }
