// ---- C08: what "every variable occurrence is bound to the right binder" means (unit U6) -----------------
// (hand-written from the statement of C08; DESIGN.md section 15).
//
// Input: the re-associated parser tree, viewed as PTerm (names kept).  Output: the core term, viewed as
// term::STerm (names erased, de Bruijn indices kept).  An environment maps every name in scope to the DEPTH at
// which it was bound; at depth d the index of a variable bound at depth e is d - 1 - e.

pub type Env = Map<Seq<char>, usize>;

// `_` (placeholder(), defined next to the Context stubs) never binds anything

spec fn bind(m: Env, x: Seq<char>, d: nat) -> Env {
    if x == placeholder() { m } else { m.insert(x, d as usize) }
}

// ---- a chain of nested lets `x_0 [: A_0] = d_0; x_1 ... ; body` is ONE group ------------------------
spec fn is_let(t: PTerm) -> bool { t.kind is Let && t.kids.len() == (if t.kind->Let_1 { 3nat } else { 2nat }) }

spec fn let_len(t: PTerm) -> nat
    decreases t
{
    if is_let(t) { 1 + let_len(t.kids[t.kids.len() - 1]) } else { 0 }
}

// the i-th let node of the chain
spec fn let_at(t: PTerm, i: nat) -> PTerm
    decreases i
{
    if i == 0 { t } else { let_at(t.kids[t.kids.len() - 1], (i - 1) as nat) }
}

spec fn let_name(t: PTerm, i: nat) -> Seq<char> { let_at(t, i).kind->Let_0 }
spec fn let_ann(t: PTerm, i: nat) -> Option<PTerm> { let u = let_at(t, i); if u.kind->Let_1 { Some(u.kids[0]) } else { None } }
spec fn let_def(t: PTerm, i: nat) -> PTerm { let u = let_at(t, i); u.kids[u.kids.len() - 2] }
spec fn let_inner(t: PTerm) -> PTerm { let_at(t, let_len(t)) }

// the environment after binding the first k names of the group at depths d, d+1, ..
spec fn bind_group(m: Env, t: PTerm, d: nat, k: nat) -> Env
    decreases k
{
    if k == 0 { m } else { bind(bind_group(m, t, d, (k - 1) as nat), let_name(t, (k - 1) as nat), d + (k - 1) as nat) }
}

spec fn psize(t: PTerm) -> nat
    decreases t
{
    1 + psize_seq(t.kids, t.kids.len())
}

spec fn psize_seq(k: Seq<PTerm>, n: nat) -> nat
    decreases k, n
{
    if n == 0 || n > k.len() { 0 } else { psize(k[n - 1]) + psize_seq(k, (n - 1) as nat) }
}

// ---- the translation ------------------------------------------------------------------------------
spec fn core_kind(k: PKind) -> term::Kind {
    match k {
        PKind::Type | PKind::ParseError | PKind::Variable(_) | PKind::Let(_, _) => term::Kind::Type,
        PKind::Lambda(_, im, _) => term::Kind::Lambda(im),
        PKind::Pi(_, im) => term::Kind::Pi(im),
        PKind::App => term::Kind::App,
        PKind::Integer => term::Kind::Integer,
        PKind::Lit(v) => term::Kind::Lit(v),
        PKind::Neg => term::Kind::Neg,
        PKind::Sum => term::Kind::Sum,
        PKind::Difference => term::Kind::Difference,
        PKind::Product => term::Kind::Product,
        PKind::Quotient => term::Kind::Quotient,
        PKind::LessThan => term::Kind::LessThan,
        PKind::LessThanOrEqualTo => term::Kind::LessThanOrEqualTo,
        PKind::EqualTo => term::Kind::EqualTo,
        PKind::GreaterThan => term::Kind::GreaterThan,
        PKind::GreaterThanOrEqualTo => term::Kind::GreaterThanOrEqualTo,
        PKind::Boolean => term::Kind::Boolean,
        PKind::True => term::Kind::True,
        PKind::False => term::Kind::False,
        PKind::If => term::Kind::If,
    }
}

// (opaque: the exec proofs use the unfolding lemmas of resolve_lemmas.rs, one per kind of node)
#[verifier::opaque]
spec fn resolve(t: PTerm, m: Env, d: nat) -> term::STerm
    decreases psize(t), 1nat
{
    let k = t.kids;
    match t.kind {
        // a name in scope is the variable bound at the recorded depth; `_` (never in scope) is a fresh hole
        PKind::Variable(x) => if m.dom().contains(x) && m[x] < d { term::STerm::Var((d - 1 - m[x]) as nat) } else { term::STerm::Hole },
        // a parameter scopes over the body / codomain only
        PKind::Lambda(x, im, annotated) => if k.len() == (if annotated { 2nat } else { 1nat }) {
            term::STerm::Node(term::Kind::Lambda(im), term::s2(
                if annotated { resolve_part(t, k[0], m, d) } else { term::STerm::Hole },
                resolve_part(t, k[k.len() - 1], bind(m, x, d), d + 1)))
        } else { term::STerm::Hole },
        PKind::Pi(x, im) => if k.len() == 2 {
            term::STerm::Node(term::Kind::Pi(im), term::s2(resolve_part(t, k[0], m, d), resolve_part(t, k[1], bind(m, x, d), d + 1)))
        } else { term::STerm::Hole },
        // all definitions of a group scope over every annotation, every definition and the body of the group
        PKind::Let(_, _) => if is_let(t) {
            let n = let_len(t);
            let m2 = bind_group(m, t, d, n);
            let d2 = d + n;
            term::STerm::Node(term::Kind::Let, Seq::new((2 * n + 1) as nat, |i: int|
                if 0 <= i < n { match let_ann(t, i as nat) { Some(a) => resolve_part(t, a, m2, d2), None => term::STerm::Hole } }
                else if n <= i < 2 * n { resolve_part(t, let_def(t, (i - n) as nat), m2, d2) }
                else { resolve_part(t, let_inner(t), m2, d2) }))
        } else { term::STerm::Hole },
        // everything else: same constructor, children in the same scope
        _ => term::STerm::Node(core_kind(t.kind), Seq::new(k.len(), |i: int| resolve_part(t, k[i], m, d))),
    }
}

// a part of t (strictly smaller: psize) -- the guard keeps the definition total without a termination lemma
spec fn resolve_part(t: PTerm, p: PTerm, m: Env, d: nat) -> term::STerm
    decreases psize(t), 0nat
{
    if psize(p) < psize(t) { resolve(p, m, d) } else { term::STerm::Hole }
}

// ---- "no error is reported": every occurrence is in scope (or `_`), no binder re-binds a name in scope ----
spec fn fresh(x: Seq<char>, dom: Set<Seq<char>>) -> bool { x == placeholder() || !dom.contains(x) }

spec fn dom_bind(dom: Set<Seq<char>>, x: Seq<char>) -> Set<Seq<char>> { if x == placeholder() { dom } else { dom.insert(x) } }

spec fn dom_group(dom: Set<Seq<char>>, t: PTerm, k: nat) -> Set<Seq<char>>
    decreases k
{
    if k == 0 { dom } else { dom_bind(dom_group(dom, t, (k - 1) as nat), let_name(t, (k - 1) as nat)) }
}

#[verifier::opaque]
spec fn scoped(t: PTerm, dom: Set<Seq<char>>) -> bool
    decreases psize(t), 1nat
{
    let k = t.kids;
    match t.kind {
        PKind::Variable(x) => x == placeholder() || dom.contains(x),
        PKind::Lambda(x, _, annotated) => k.len() == (if annotated { 2nat } else { 1nat })
            && (annotated ==> scoped_part(t, k[0], dom)) && fresh(x, dom) && scoped_part(t, k[k.len() - 1], dom_bind(dom, x)),
        PKind::Pi(x, _) => k.len() == 2 && scoped_part(t, k[0], dom) && fresh(x, dom) && scoped_part(t, k[1], dom_bind(dom, x)),
        PKind::Let(_, _) => is_let(t) && {
            let n = let_len(t);
            let dom2 = dom_group(dom, t, n);
            (forall|i: nat| #![trigger let_name(t, i)] i < n ==> fresh(let_name(t, i), dom_group(dom, t, i)))
            && (forall|i: nat| #![trigger let_ann(t, i)] i < n ==> match let_ann(t, i) { Some(a) => scoped_part(t, a, dom2), None => true })
            && (forall|i: nat| #![trigger let_def(t, i)] i < n ==> scoped_part(t, let_def(t, i), dom2))
            && scoped_part(t, let_inner(t), dom2)
        },
        _ => forall|i: int| #![trigger k[i]] 0 <= i < k.len() ==> scoped_part(t, k[i], dom),
    }
}

spec fn scoped_part(t: PTerm, p: PTerm, dom: Set<Seq<char>>) -> bool
    decreases psize(t), 0nat
{
    psize(p) < psize(t) && scoped(p, dom)
}
