// ---- grammar.y as a DERIVATION RELATION on raw trees, and the contract of the packrat functions ---------
// (hand-written from /repo/grammar.y and the statement of C07; DESIGN.md section 14).
//
// A raw tree is the parser::Term built by the recursive-descent functions before re-association; a
// parenthesised term is the inner term with group = true (nested parentheses collapse into one flag).
//
//   shp(N, t, s, i, j)  :=  t is the tree of a derivation of nonterminal N whose yield is exactly the token
//                           segment s[i..j) -- constructors, binder names, implicit flags, literals, operand
//                           nonterminals (the precedence ladder), group flags and every token in between.
//
// Chains come out right-nested, as grammar.y writes them; the re-association unit (parser_spec.rs) takes over
// from there.

spec fn nt_rank(n: Nonterminal) -> nat {
    match n {
        // the alternatives of a nonterminal are tried at the same position: they must rank below it
        Nonterminal::Term => 20,
        Nonterminal::JumboTerm => 18,
        Nonterminal::NonDependentPi => 17,     // begins with a small_term
        Nonterminal::GiantTerm => 16,
        Nonterminal::LessThan | Nonterminal::LessThanOrEqualTo | Nonterminal::EqualTo | Nonterminal::GreaterThan
        | Nonterminal::GreaterThanOrEqualTo => 15,  // begin with a huge_term
        Nonterminal::HugeTerm => 14,
        Nonterminal::Sum | Nonterminal::Difference => 13,   // begin with a large_term
        Nonterminal::LargeTerm => 12,
        Nonterminal::MediumTerm => 10,
        Nonterminal::Product | Nonterminal::Quotient => 9,  // begin with a small_term
        Nonterminal::SmallTerm => 8,
        Nonterminal::Application => 7,          // begins with an atom
        Nonterminal::Atom => 6,
        _ => 1,                                 // begin with a token
    }
}

// nonterminals that derive `group: LEFT_PAREN term RIGHT_PAREN` (through atom)
spec fn admits_group(n: Nonterminal) -> bool {
    match n {
        Nonterminal::Group | Nonterminal::Atom | Nonterminal::SmallTerm | Nonterminal::MediumTerm | Nonterminal::LargeTerm
        | Nonterminal::HugeTerm | Nonterminal::GiantTerm | Nonterminal::JumboTerm | Nonterminal::Term => true,
        _ => false,
    }
}

// marker for the split positions of a production: the existentials below are instantiated with the positions the
// parsing functions mark (`assert(mid(next))`), never by matching on the recursive relation itself
spec fn mid(m: int) -> bool { true }

spec fn seg(i: int, j: int) -> nat { if j >= i { (j - i) as nat } else { 0 } }

spec fn shp<'a>(n: Nonterminal, t: PTerm, s: Seq<Token<'a>>, i: int, j: int) -> bool
    decreases t, seg(i, j), 100nat
{
    if t.group { admits_group(n) && grp(t, s, i, j) } else { drv(n, t, s, i, j) }
}

// group: LEFT_PAREN term RIGHT_PAREN, where the inner term is t without its flag or again a group
spec fn grp<'a>(t: PTerm, s: Seq<Token<'a>>, i: int, j: int) -> bool
    decreases t, seg(i, j), 50nat
{
    0 <= i && i + 2 <= j <= s.len() && s[i].variant is LeftParen && s[j - 1].variant is RightParen
    && (drv(Nonterminal::Term, t, s, i + 1, j - 1) || grp(t, s, i + 1, j - 1))
}

spec fn is_ident<'a>(s: Seq<Token<'a>>, i: int, name: Seq<char>) -> bool {
    0 <= i < s.len() && s[i].variant is Identifier && s[i].variant->Identifier_0@ == name
}

// the productions, ignoring the group flag of the root of t
spec fn drv<'a>(n: Nonterminal, t: PTerm, s: Seq<Token<'a>>, i: int, j: int) -> bool
    decreases t, seg(i, j), nt_rank(n)
{
    let k = t.kids;
    0 <= i <= j <= s.len() && match n {
        // term: let | jumbo_term
        Nonterminal::Term => drv(Nonterminal::Let, t, s, i, j) || drv(Nonterminal::JumboTerm, t, s, i, j),
        // type: TYPE
        Nonterminal::Type => t.kind == PKind::Type && k.len() == 0 && j == i + 1 && s[i].variant is Type,
        // variable: IDENTIFIER
        Nonterminal::Variable => t.kind is Variable && k.len() == 0 && j == i + 1 && is_ident(s, i, t.kind->Variable_0),
        // lambda: IDENTIFIER THICK_ARROW term
        Nonterminal::Lambda => t.kind is Lambda && !t.kind->Lambda_1 && !t.kind->Lambda_2 && k.len() == 1
            && i + 2 <= j && is_ident(s, i, t.kind->Lambda_0) && s[i + 1].variant is ThickArrow
            && shp(Nonterminal::Term, k[0], s, i + 2, j),
        // lambda_implicit: LEFT_CURLY IDENTIFIER RIGHT_CURLY THICK_ARROW term
        Nonterminal::LambdaImplicit => t.kind is Lambda && t.kind->Lambda_1 && !t.kind->Lambda_2 && k.len() == 1
            && i + 4 <= j && s[i].variant is LeftCurly && is_ident(s, i + 1, t.kind->Lambda_0) && s[i + 2].variant is RightCurly
            && s[i + 3].variant is ThickArrow && shp(Nonterminal::Term, k[0], s, i + 4, j),
        // annotated_lambda: LEFT_PAREN IDENTIFIER COLON jumbo_term RIGHT_PAREN THICK_ARROW term
        Nonterminal::AnnotatedLambda => t.kind is Lambda && !t.kind->Lambda_1 && t.kind->Lambda_2 && k.len() == 2
            && i + 3 <= j && s[i].variant is LeftParen && is_ident(s, i + 1, t.kind->Lambda_0) && s[i + 2].variant is Colon
            && exists|m: int| #![trigger mid(m)]
                mid(m) && shp(Nonterminal::JumboTerm, k[0], s, i + 3, m) && i + 3 <= m && m + 2 <= j && s[m].variant is RightParen
                && s[m + 1].variant is ThickArrow && shp(Nonterminal::Term, k[1], s, m + 2, j),
        // annotated_lambda_implicit: LEFT_CURLY IDENTIFIER COLON jumbo_term RIGHT_CURLY THICK_ARROW term
        Nonterminal::AnnotatedLambdaImplicit => t.kind is Lambda && t.kind->Lambda_1 && t.kind->Lambda_2 && k.len() == 2
            && i + 3 <= j && s[i].variant is LeftCurly && is_ident(s, i + 1, t.kind->Lambda_0) && s[i + 2].variant is Colon
            && exists|m: int| #![trigger mid(m)]
                mid(m) && shp(Nonterminal::JumboTerm, k[0], s, i + 3, m) && i + 3 <= m && m + 2 <= j && s[m].variant is RightCurly
                && s[m + 1].variant is ThickArrow && shp(Nonterminal::Term, k[1], s, m + 2, j),
        // pi: LEFT_PAREN IDENTIFIER COLON jumbo_term RIGHT_PAREN THIN_ARROW term
        Nonterminal::Pi => t.kind is Pi && !t.kind->Pi_1 && k.len() == 2
            && i + 3 <= j && s[i].variant is LeftParen && is_ident(s, i + 1, t.kind->Pi_0) && s[i + 2].variant is Colon
            && exists|m: int| #![trigger mid(m)]
                mid(m) && shp(Nonterminal::JumboTerm, k[0], s, i + 3, m) && i + 3 <= m && m + 2 <= j && s[m].variant is RightParen
                && s[m + 1].variant is ThinArrow && shp(Nonterminal::Term, k[1], s, m + 2, j),
        // pi_implicit: LEFT_CURLY IDENTIFIER COLON jumbo_term RIGHT_CURLY THIN_ARROW term
        Nonterminal::PiImplicit => t.kind is Pi && t.kind->Pi_1 && k.len() == 2
            && i + 3 <= j && s[i].variant is LeftCurly && is_ident(s, i + 1, t.kind->Pi_0) && s[i + 2].variant is Colon
            && exists|m: int| #![trigger mid(m)]
                mid(m) && shp(Nonterminal::JumboTerm, k[0], s, i + 3, m) && i + 3 <= m && m + 2 <= j && s[m].variant is RightCurly
                && s[m + 1].variant is ThinArrow && shp(Nonterminal::Term, k[1], s, m + 2, j),
        // non_dependent_pi: small_term THIN_ARROW term            (the binder name is the parser's choice)
        Nonterminal::NonDependentPi => t.kind is Pi && !t.kind->Pi_1 && k.len() == 2
            && exists|m: int| #![trigger mid(m)]
                mid(m) && shp(Nonterminal::SmallTerm, k[0], s, i, m) && i <= m < j && s[m].variant is ThinArrow
                && shp(Nonterminal::Term, k[1], s, m + 1, j),
        // application: atom small_term
        Nonterminal::Application => t.kind == PKind::App && k.len() == 2
            && exists|m: int| #![trigger mid(m)]
                mid(m) && shp(Nonterminal::Atom, k[0], s, i, m) && shp(Nonterminal::SmallTerm, k[1], s, m, j),
        // let: IDENTIFIER let_annotation EQUALS term TERMINATOR term;   let_annotation: %empty | COLON small_term
        Nonterminal::Let => t.kind is Let && is_ident(s, i, t.kind->Let_0) && (
            (!t.kind->Let_1 && k.len() == 2 && i + 2 <= j && s[i + 1].variant is Equals
                && exists|m: int| #![trigger mid(m)]
                    mid(m) && shp(Nonterminal::Term, k[0], s, i + 2, m) && i + 2 <= m < j && s[m].variant is Terminator
                    && shp(Nonterminal::Term, k[1], s, m + 1, j))
            || (t.kind->Let_1 && k.len() == 3 && i + 2 <= j && s[i + 1].variant is Colon
                && exists|m1: int, m2: int| #![trigger mid(m1), mid(m2)]
                    mid(m1) && mid(m2) && shp(Nonterminal::SmallTerm, k[0], s, i + 2, m1) && i + 2 <= m1 < j && s[m1].variant is Equals
                    && shp(Nonterminal::Term, k[1], s, m1 + 1, m2) && m1 + 1 <= m2 < j && s[m2].variant is Terminator
                    && shp(Nonterminal::Term, k[2], s, m2 + 1, j))),
        // integer: INTEGER
        Nonterminal::Integer => t.kind == PKind::Integer && k.len() == 0 && j == i + 1 && s[i].variant is Integer,
        // integer_literal: INTEGER_LITERAL
        Nonterminal::IntegerLiteral => t.kind is Lit && k.len() == 0 && j == i + 1 && s[i].variant is IntegerLiteral
            && t.kind->Lit_0 == bigint_val(s[i].variant->IntegerLiteral_0),
        // negation: MINUS large_term
        Nonterminal::Negation => t.kind == PKind::Neg && k.len() == 1 && i + 1 <= j && s[i].variant is Minus
            && shp(Nonterminal::LargeTerm, k[0], s, i + 1, j),
        // sum: large_term PLUS huge_term
        Nonterminal::Sum => t.kind == PKind::Sum && k.len() == 2
            && exists|m: int| #![trigger mid(m)]
                mid(m) && shp(Nonterminal::LargeTerm, k[0], s, i, m) && i <= m < j && s[m].variant is Plus && shp(Nonterminal::HugeTerm, k[1], s, m + 1, j),
        // difference: large_term MINUS huge_term
        Nonterminal::Difference => t.kind == PKind::Difference && k.len() == 2
            && exists|m: int| #![trigger mid(m)]
                mid(m) && shp(Nonterminal::LargeTerm, k[0], s, i, m) && i <= m < j && s[m].variant is Minus && shp(Nonterminal::HugeTerm, k[1], s, m + 1, j),
        // product: small_term ASTERISK large_term
        Nonterminal::Product => t.kind == PKind::Product && k.len() == 2
            && exists|m: int| #![trigger mid(m)]
                mid(m) && shp(Nonterminal::SmallTerm, k[0], s, i, m) && i <= m < j && s[m].variant is Asterisk && shp(Nonterminal::LargeTerm, k[1], s, m + 1, j),
        // quotient: small_term SLASH large_term
        Nonterminal::Quotient => t.kind == PKind::Quotient && k.len() == 2
            && exists|m: int| #![trigger mid(m)]
                mid(m) && shp(Nonterminal::SmallTerm, k[0], s, i, m) && i <= m < j && s[m].variant is Slash && shp(Nonterminal::LargeTerm, k[1], s, m + 1, j),
        // less_than: huge_term LESS_THAN huge_term                 (and the four other comparisons)
        Nonterminal::LessThan => t.kind == PKind::LessThan && k.len() == 2
            && exists|m: int| #![trigger mid(m)]
                mid(m) && shp(Nonterminal::HugeTerm, k[0], s, i, m) && i <= m < j && s[m].variant is LessThan && shp(Nonterminal::HugeTerm, k[1], s, m + 1, j),
        Nonterminal::LessThanOrEqualTo => t.kind == PKind::LessThanOrEqualTo && k.len() == 2
            && exists|m: int| #![trigger mid(m)]
                mid(m) && shp(Nonterminal::HugeTerm, k[0], s, i, m) && i <= m < j && s[m].variant is LessThanOrEqualTo && shp(Nonterminal::HugeTerm, k[1], s, m + 1, j),
        Nonterminal::EqualTo => t.kind == PKind::EqualTo && k.len() == 2
            && exists|m: int| #![trigger mid(m)]
                mid(m) && shp(Nonterminal::HugeTerm, k[0], s, i, m) && i <= m < j && s[m].variant is DoubleEquals && shp(Nonterminal::HugeTerm, k[1], s, m + 1, j),
        Nonterminal::GreaterThan => t.kind == PKind::GreaterThan && k.len() == 2
            && exists|m: int| #![trigger mid(m)]
                mid(m) && shp(Nonterminal::HugeTerm, k[0], s, i, m) && i <= m < j && s[m].variant is GreaterThan && shp(Nonterminal::HugeTerm, k[1], s, m + 1, j),
        Nonterminal::GreaterThanOrEqualTo => t.kind == PKind::GreaterThanOrEqualTo && k.len() == 2
            && exists|m: int| #![trigger mid(m)]
                mid(m) && shp(Nonterminal::HugeTerm, k[0], s, i, m) && i <= m < j && s[m].variant is GreaterThanOrEqualTo && shp(Nonterminal::HugeTerm, k[1], s, m + 1, j),
        // boolean: BOOLEAN;  true: TRUE;  false: FALSE
        Nonterminal::Boolean => t.kind == PKind::Boolean && k.len() == 0 && j == i + 1 && s[i].variant is Boolean,
        Nonterminal::True => t.kind == PKind::True && k.len() == 0 && j == i + 1 && s[i].variant is True,
        Nonterminal::False => t.kind == PKind::False && k.len() == 0 && j == i + 1 && s[i].variant is False,
        // if: IF term THEN term ELSE term
        Nonterminal::If => t.kind == PKind::If && k.len() == 3 && i + 1 <= j && s[i].variant is If
            && exists|m1: int, m2: int| #![trigger mid(m1), mid(m2)]
                mid(m1) && mid(m2) && shp(Nonterminal::Term, k[0], s, i + 1, m1) && i + 1 <= m1 < j && s[m1].variant is Then
                && shp(Nonterminal::Term, k[1], s, m1 + 1, m2) && m1 + 1 <= m2 < j && s[m2].variant is Else
                && shp(Nonterminal::Term, k[2], s, m2 + 1, j),
        // group: a derivation through `group` always sets the flag, which drv ignores -- see grp
        Nonterminal::Group => false,
        // atom: type | variable | integer | integer_literal | boolean | true | false | group
        Nonterminal::Atom => drv(Nonterminal::Type, t, s, i, j) || drv(Nonterminal::Variable, t, s, i, j) || drv(Nonterminal::Integer, t, s, i, j)
            || drv(Nonterminal::IntegerLiteral, t, s, i, j) || drv(Nonterminal::Boolean, t, s, i, j) || drv(Nonterminal::True, t, s, i, j)
            || drv(Nonterminal::False, t, s, i, j),
        // small_term: application | atom       ... the precedence ladder
        Nonterminal::SmallTerm => drv(Nonterminal::Application, t, s, i, j) || drv(Nonterminal::Atom, t, s, i, j),
        Nonterminal::MediumTerm => drv(Nonterminal::Product, t, s, i, j) || drv(Nonterminal::Quotient, t, s, i, j) || drv(Nonterminal::SmallTerm, t, s, i, j),
        Nonterminal::LargeTerm => drv(Nonterminal::Negation, t, s, i, j) || drv(Nonterminal::MediumTerm, t, s, i, j),
        Nonterminal::HugeTerm => drv(Nonterminal::Sum, t, s, i, j) || drv(Nonterminal::Difference, t, s, i, j) || drv(Nonterminal::LargeTerm, t, s, i, j),
        Nonterminal::GiantTerm => drv(Nonterminal::LessThan, t, s, i, j) || drv(Nonterminal::LessThanOrEqualTo, t, s, i, j)
            || drv(Nonterminal::EqualTo, t, s, i, j) || drv(Nonterminal::GreaterThan, t, s, i, j)
            || drv(Nonterminal::GreaterThanOrEqualTo, t, s, i, j) || drv(Nonterminal::HugeTerm, t, s, i, j),
        Nonterminal::JumboTerm => drv(Nonterminal::Lambda, t, s, i, j) || drv(Nonterminal::LambdaImplicit, t, s, i, j)
            || drv(Nonterminal::AnnotatedLambda, t, s, i, j) || drv(Nonterminal::AnnotatedLambdaImplicit, t, s, i, j)
            || drv(Nonterminal::Pi, t, s, i, j) || drv(Nonterminal::PiImplicit, t, s, i, j) || drv(Nonterminal::NonDependentPi, t, s, i, j)
            || drv(Nonterminal::If, t, s, i, j) || drv(Nonterminal::GiantTerm, t, s, i, j),
    }
}

// ---- drv and grp never look at the group flag of the root ---------------------------------------------
// (parse_group re-labels the inner tree with group = true; Z3 cannot see through the recursion that this
// changes nothing)
proof fn lemma_flag<'a>(n: Nonterminal, t: PTerm, u: PTerm, s: Seq<Token<'a>>, i: int, j: int)
    requires t.kind == u.kind, t.kids == u.kids,
    ensures drv(n, t, s, i, j) == drv(n, u, s, i, j),
    decreases seg(i, j), nt_rank(n),
{
    match n {
        Nonterminal::Term => { lemma_flag(Nonterminal::Let, t, u, s, i, j); lemma_flag(Nonterminal::JumboTerm, t, u, s, i, j); }
        Nonterminal::Atom => {
            lemma_flag(Nonterminal::Type, t, u, s, i, j); lemma_flag(Nonterminal::Variable, t, u, s, i, j);
            lemma_flag(Nonterminal::Integer, t, u, s, i, j); lemma_flag(Nonterminal::IntegerLiteral, t, u, s, i, j);
            lemma_flag(Nonterminal::Boolean, t, u, s, i, j); lemma_flag(Nonterminal::True, t, u, s, i, j);
            lemma_flag(Nonterminal::False, t, u, s, i, j);
        }
        Nonterminal::SmallTerm => { lemma_flag(Nonterminal::Application, t, u, s, i, j); lemma_flag(Nonterminal::Atom, t, u, s, i, j); }
        Nonterminal::MediumTerm => { lemma_flag(Nonterminal::Product, t, u, s, i, j); lemma_flag(Nonterminal::Quotient, t, u, s, i, j); lemma_flag(Nonterminal::SmallTerm, t, u, s, i, j); }
        Nonterminal::LargeTerm => { lemma_flag(Nonterminal::Negation, t, u, s, i, j); lemma_flag(Nonterminal::MediumTerm, t, u, s, i, j); }
        Nonterminal::HugeTerm => { lemma_flag(Nonterminal::Sum, t, u, s, i, j); lemma_flag(Nonterminal::Difference, t, u, s, i, j); lemma_flag(Nonterminal::LargeTerm, t, u, s, i, j); }
        Nonterminal::GiantTerm => {
            lemma_flag(Nonterminal::LessThan, t, u, s, i, j); lemma_flag(Nonterminal::LessThanOrEqualTo, t, u, s, i, j);
            lemma_flag(Nonterminal::EqualTo, t, u, s, i, j); lemma_flag(Nonterminal::GreaterThan, t, u, s, i, j);
            lemma_flag(Nonterminal::GreaterThanOrEqualTo, t, u, s, i, j); lemma_flag(Nonterminal::HugeTerm, t, u, s, i, j);
        }
        Nonterminal::JumboTerm => {
            lemma_flag(Nonterminal::Lambda, t, u, s, i, j); lemma_flag(Nonterminal::LambdaImplicit, t, u, s, i, j);
            lemma_flag(Nonterminal::AnnotatedLambda, t, u, s, i, j); lemma_flag(Nonterminal::AnnotatedLambdaImplicit, t, u, s, i, j);
            lemma_flag(Nonterminal::Pi, t, u, s, i, j); lemma_flag(Nonterminal::PiImplicit, t, u, s, i, j);
            lemma_flag(Nonterminal::NonDependentPi, t, u, s, i, j); lemma_flag(Nonterminal::If, t, u, s, i, j);
            lemma_flag(Nonterminal::GiantTerm, t, u, s, i, j);
        }
        _ => {}
    }
}

proof fn lemma_flag_grp<'a>(t: PTerm, u: PTerm, s: Seq<Token<'a>>, i: int, j: int)
    requires t.kind == u.kind, t.kids == u.kids,
    ensures grp(t, s, i, j) == grp(u, s, i, j),
    decreases seg(i, j),
{
    if 0 <= i && i + 2 <= j <= s.len() {
        lemma_flag(Nonterminal::Term, t, u, s, i + 1, j - 1);
        lemma_flag_grp(t, u, s, i + 1, j - 1);
    }
}

// what parse_group does: LEFT_PAREN, an inner term (grouped or not) from i + 1 to j - 1, RIGHT_PAREN
proof fn lemma_group_intro<'a>(inner: PTerm, outer: PTerm, s: Seq<Token<'a>>, i: int, j: int)
    requires
        inner.kind == outer.kind, inner.kids == outer.kids, outer.group,
        0 <= i && i + 2 <= j <= s.len(), s[i].variant is LeftParen, s[j - 1].variant is RightParen,
        shp(Nonterminal::Term, inner, s, i + 1, j - 1),
    ensures shp(Nonterminal::Group, outer, s, i, j),
{
    lemma_flag(Nonterminal::Term, inner, outer, s, i + 1, j - 1);
    lemma_flag_grp(inner, outer, s, i + 1, j - 1);
}

// ---- "no error was recorded anywhere in the tree": what parse() tests through collect_error_factories --
spec fn err_free(t: Term) -> bool
    decreases t
{
    t.errors@.len() == 0 && match t.variant {
        Variant::ParseError | Variant::Type | Variant::Variable(_) | Variant::Integer | Variant::IntegerLiteral(_)
        | Variant::Boolean | Variant::True | Variant::False => true,
        Variant::Lambda(_, _, d, b) => (match d { Some(d) => err_free(*d), None => true }) && err_free(*b),
        Variant::Let(_, a, d, b) => (match a { Some(a) => err_free(*a), None => true }) && err_free(*d) && err_free(*b),
        Variant::Pi(_, _, a, b) | Variant::Application(a, b) | Variant::Sum(a, b) | Variant::Difference(a, b)
        | Variant::Product(a, b) | Variant::Quotient(a, b) | Variant::LessThan(a, b) | Variant::LessThanOrEqualTo(a, b)
        | Variant::EqualTo(a, b) | Variant::GreaterThan(a, b) | Variant::GreaterThanOrEqualTo(a, b) => err_free(*a) && err_free(*b),
        Variant::Negation(a) => err_free(*a),
        Variant::If(a, b, c) => err_free(*a) && err_free(*b) && err_free(*c),
    }
}

// ---- "no ParseError node anywhere in the tree": the precondition of the re-association passes -----------
spec fn npe(t: Term) -> bool
    decreases t
{
    !(t.variant is ParseError) && match t.variant {
        Variant::ParseError | Variant::Type | Variant::Variable(_) | Variant::Integer | Variant::IntegerLiteral(_)
        | Variant::Boolean | Variant::True | Variant::False => true,
        Variant::Lambda(_, _, d, b) => (match d { Some(d) => npe(*d), None => true }) && npe(*b),
        Variant::Let(_, a, d, b) => (match a { Some(a) => npe(*a), None => true }) && npe(*d) && npe(*b),
        Variant::Pi(_, _, a, b) | Variant::Application(a, b) | Variant::Sum(a, b) | Variant::Difference(a, b)
        | Variant::Product(a, b) | Variant::Quotient(a, b) | Variant::LessThan(a, b) | Variant::LessThanOrEqualTo(a, b)
        | Variant::EqualTo(a, b) | Variant::GreaterThan(a, b) | Variant::GreaterThanOrEqualTo(a, b) => npe(*a) && npe(*b),
        Variant::Negation(a) => npe(*a),
        Variant::If(a, b, c) => npe(*a) && npe(*b) && npe(*c),
    }
}

// npe is no_parse_error (the predicate the re-association contracts use) on the abstract view
spec fn rt<'a>(r: Rc<Term<'a>>) -> Term<'a> { *r }

proof fn lemma_npe_view(t: Term)
    requires npe(t),
    ensures no_parse_error(pview(t)),
    decreases t,
{
    reveal(no_parse_error);
    let k = pview(t).kids;
    match t.variant {
        Variant::ParseError | Variant::Type | Variant::Variable(_) | Variant::Integer | Variant::IntegerLiteral(_)
        | Variant::Boolean | Variant::True | Variant::False => {}
        Variant::Lambda(_, _, d, b) => { match d { Some(d) => { lemma_npe_view(rt(d)); } None => {} } lemma_npe_view(rt(b)); }
        Variant::Let(_, a, d, b) => { match a { Some(a) => { lemma_npe_view(rt(a)); } None => {} } lemma_npe_view(rt(d)); lemma_npe_view(rt(b)); }
        Variant::Pi(_, _, a, b) | Variant::Application(a, b) | Variant::Sum(a, b) | Variant::Difference(a, b)
        | Variant::Product(a, b) | Variant::Quotient(a, b) | Variant::LessThan(a, b) | Variant::LessThanOrEqualTo(a, b)
        | Variant::EqualTo(a, b) | Variant::GreaterThan(a, b) | Variant::GreaterThanOrEqualTo(a, b) => { lemma_npe_view(rt(a)); lemma_npe_view(rt(b)); }
        Variant::Negation(a) => { lemma_npe_view(rt(a)); }
        Variant::If(a, b, c) => { lemma_npe_view(rt(a)); lemma_npe_view(rt(b)); lemma_npe_view(rt(c)); }
    }
    assert forall|c: int| #![trigger k[c]] 0 <= c < k.len() implies no_parse_error(k[c]) by {}
}

// ---- the contract of every parsing function ----------------------------------------------------------
// v = (tree, next, confident).  The position stays inside the slice and moves forward unless the parse failed (this
// is what makes the mutual recursion terminate: measure (tokens left, nt_rank)); a failed parse (ParseError at the root,
// or not confident) always carries a recorded error; and a tree without any recorded error contains no ParseError
// node and is a derivation of the nonterminal from exactly the tokens start..next.
spec fn good<'a>(n: Nonterminal, v: (Term<'a>, usize, bool), s: Seq<Token<'a>>, start: int) -> bool {
    start <= v.1 <= s.len()
    && (!(v.0.variant is ParseError) ==> start < v.1)          // a successful parse consumes at least one token
    && (v.0.variant is ParseError ==> !err_free(v.0))
    && (!v.2 ==> !err_free(v.0))
    && (err_free(v.0) ==> npe(v.0) && shp(n, pview(v.0), s, start, v.1 as int))
}

// ---- the memo table, modelled by stubs (TRUSTED: a HashMap keyed by (Nonterminal, usize)) --------------
#[verifier::external_body]
struct Cache<'a> { _p: std::marker::PhantomData<&'a u8> }

uninterp spec fn cache_lookup<'a>(c: Cache<'a>, k: (Nonterminal, usize)) -> Option<(Term<'a>, usize, bool)>;

// R14: `$cache.get(&cache_key)` + `result.clone()`
#[verifier::external_body]
fn cache_get<'a>(c: &Cache<'a>, k: &(Nonterminal, usize)) -> (r: Option<(Term<'a>, usize, bool)>)
    ensures r == cache_lookup(*c, *k)
{ unimplemented!() }

// R14: `$cache.insert(cache_key, value.clone())`
#[verifier::external_body]
fn cache_put<'a>(c: &mut Cache<'a>, k: (Nonterminal, usize), v: &(Term<'a>, usize, bool))
    ensures forall|k2: (Nonterminal, usize)| #[trigger] cache_lookup(*final(c), k2) == (if k2 == k { Some(*v) } else { cache_lookup(*old(c), k2) })
{ unimplemented!() }

// R14: `Cache::new()`
#[verifier::external_body]
fn cache_new<'a>() -> (c: Cache<'a>)
    ensures forall|k: (Nonterminal, usize)| (#[trigger] cache_lookup(c, k)) is None
{ unimplemented!() }

// every memoised result is a good result for its key
spec fn cache_inv<'a>(c: Cache<'a>, s: Seq<Token<'a>>) -> bool {
    forall|k: (Nonterminal, usize)| (#[trigger] cache_lookup(c, k)) is Some ==> good(k.0, cache_lookup(c, k)->Some_0, s, k.1 as int)
}

// error reporting is outside the derivation relation: factories and ranges are opaque values
#[verifier::external_body]
fn error_factory<'a>(tokens: &'a [Token<'a>], position: usize, expectation: &str) -> ErrorFactory<'a> { unimplemented!() }
#[verifier::external_body]
fn token_source_range<'a>(tokens: &'a [Token<'a>], position: usize) -> SourceRange { unimplemented!() }
#[verifier::external_body]
fn empty_source_range<'a>(tokens: &'a [Token<'a>], position: usize) -> SourceRange { unimplemented!() }
// R15: the closure building the "parenthesis was never closed" message (format!/listing/throw) -> opaque value
#[verifier::external_body]
fn opaque_error_factory<'a>() -> ErrorFactory<'a> { unimplemented!() }

// ---- what the contracts add up to (the acceptance test of parse() is: no recorded error, every token used) --
proof fn theorem_accept_is_derivation<'a>(v: (Term<'a>, usize, bool), s: Seq<Token<'a>>)
    requires good(Nonterminal::Term, v, s, 0), err_free(v.0), v.1 == s.len(),
    ensures
        shp(Nonterminal::Term, pview(v.0), s, 0, s.len() as int),   // the sentence is in the language, with this raw tree
        no_parse_error(pview(v.0)),                                  // and the re-association passes may run on it
{
    lemma_npe_view(v.0);
}
