// ---- every hole that `check_definitions` visits in a freshly resolved term is UNRESOLVED and carries shift 0 (it asserts
// the latter).  check_definitions does not descend into the annotations and definitions of a group -- the hole that stands
// for a missing annotation of definition i carries shift n - i, and is never visited ------------------------------
pub open spec fn holes_zero(t: Term) -> bool
    decreases t
{
    match t.variant {
        Unifier(c, s) => s == 0 && !hole_resolved(c),
        Type | Integer | IntegerLiteral(_) | Boolean | True | False | Variable(_, _) => true,
        Lambda(_, _, a, b) | Pi(_, _, a, b) | Application(a, b) | Sum(a, b) | Difference(a, b) | Product(a, b) | Quotient(a, b)
        | LessThan(a, b) | LessThanOrEqualTo(a, b) | EqualTo(a, b) | GreaterThan(a, b)
        | GreaterThanOrEqualTo(a, b) => holes_zero(*a) && holes_zero(*b),
        Negation(a) => holes_zero(*a),
        If(a, b, c) => holes_zero(*a) && holes_zero(*b) && holes_zero(*c),
        Let(_, body) => holes_zero(*body),
    }
}
