// ---- how the overflow guard s_ok travels through shifting and opening (used inside `step`, whose
// Let arm feeds the result of one substitution into the next) ---------------------------------------

pub proof fn lemma_ok_weaken(t: STerm, c: nat, b: nat, c2: nat, b2: nat)
    requires s_ok(t, c, b), c2 <= c, b <= b2,
    ensures s_ok(t, c2, b2),
    decreases t
{
    reveal(s_ok);
    match t {
        STerm::Node(k, kids) => {
            assert forall|i: int| 0 <= i < kids.len() implies s_ok(#[trigger] kids[i], c2 + binds(k, kids.len(), i), b2) by {
                lemma_ok_weaken(kids[i], c + binds(k, kids.len(), i), b, c2 + binds(k, kids.len(), i), b2);
            }
        }
        _ => {}
    }
}

pub proof fn lemma_ok_lift(t: STerm, c: nat, b: nat, e: nat)
    requires s_ok(t, c, b),
    ensures s_ok(t, c + e, b + e),
    decreases t
{
    reveal(s_ok);
    match t {
        STerm::Node(k, kids) => {
            assert forall|i: int| 0 <= i < kids.len() implies s_ok(#[trigger] kids[i], c + e + binds(k, kids.len(), i), b + e) by {
                lemma_ok_lift(kids[i], c + binds(k, kids.len(), i), b, e);
            }
        }
        _ => {}
    }
}

// An upward shift of a well-formed term succeeds and enlarges the bound by the amount.
pub proof fn lemma_ok_shift(t: STerm, c: nat, b: nat, c0: nat, d: nat)
    requires s_ok(t, c, b),
    ensures
        s_shift(t, c0, d as int) is Some,
        s_ok(s_shift(t, c0, d as int).unwrap(), c, b + d),
    decreases t
{
    reveal(s_ok);
    reveal(s_shift);
    match t {
        STerm::Node(k, kids) => {
            assert forall|i: int| 0 <= i < kids.len() implies
                (s_shift(#[trigger] kids[i], c0 + binds(k, kids.len(), i), d as int) is Some
                 && s_ok(s_shift(kids[i], c0 + binds(k, kids.len(), i), d as int).unwrap(), c + binds(k, kids.len(), i), b + d)) by {
                lemma_ok_shift(kids[i], c + binds(k, kids.len(), i), b, c0 + binds(k, kids.len(), i), d);
            }
            let r = s_shift(t, c0, d as int).unwrap();
            let rk = r->Node_1;
            assert(rk.len() == kids.len());
            assert forall|i: int| 0 <= i < rk.len() implies s_ok(#[trigger] rk[i], c + binds(k, rk.len(), i), b + d) by {
                assert(rk[i] == s_shift(kids[i], c0 + binds(k, kids.len(), i), d as int).unwrap());
            }
        }
        _ => {}
    }
}

// The converse for the guard: if an upward shift of t is well-formed, so is t (at cutoff 0).
pub proof fn lemma_ok_unshift(t: STerm, c0: nat, d: nat, c: nat, b: nat)
    requires
        s_shift(t, c0, d as int) is Some,
        s_ok(s_shift(t, c0, d as int).unwrap(), c, b),
    ensures
        s_ok(t, c, b),
    decreases t
{
    reveal(s_ok);
    reveal(s_shift);
    match t {
        STerm::Node(k, kids) => {
            assert(t->Node_1 == kids);
            let r = s_shift(t, c0, d as int).unwrap();
            let rk = r->Node_1;
            assert(r->Node_1 == rk);
            assert(rk.len() == kids.len());
            assert forall|i: int| 0 <= i < kids.len() implies s_ok(#[trigger] kids[i], c + binds(k, kids.len(), i), b) by {
                assert(s_shift(kids[i], c0 + binds(k, kids.len(), i), d as int) is Some);
                assert(rk[i] == s_shift(kids[i], c0 + binds(k, kids.len(), i), d as int).unwrap());
                assert(s_ok(rk[i], c + binds(k, rk.len(), i), b));
                lemma_ok_unshift(kids[i], c0 + binds(k, kids.len(), i), d, c + binds(k, kids.len(), i), b);
            }
        }
        _ => {}
    }
}

// What a resolved hole `Unifier(c, s)` tells about its content (used in the hole arms).
pub proof fn lemma_hole_facts<'a>(t: Term<'a>, cutoff: nat, b: nat)
    requires
        t.variant is Unifier,
        s_ok(view(t), cutoff, b),
    ensures
        hole_resolved(t.variant->Unifier_0),
        t.variant->Unifier_1 < BOUND(),
        s_shift(hole_view(t.variant->Unifier_0), 0, t.variant->Unifier_1 as int) == Some(view(t)),
        s_ok(hole_view(t.variant->Unifier_0), 0, b),
{
    reveal(s_ok);
    reveal(view_hole);
    let c = t.variant->Unifier_0;
    let s = t.variant->Unifier_1;
    assert(hole_resolved(c) && s < BOUND());
    assert(s_shift(hole_view(c), 0, s as int) is Some);
    lemma_ok_unshift(hole_view(c), 0, s as nat, cutoff, b);
    lemma_ok_weaken(hole_view(c), cutoff, b, 0, b);
}

// Opening a well-formed term with a well-formed term gives a well-formed term, with a larger bound.
pub proof fn lemma_ok_open(t: STerm, c: nat, b: nat, j: nat, u: STerm, bu: nat, s: nat, e: nat)
    requires s_ok(t, c, b), s_ok(u, 0, bu), s <= c + e,
    ensures s_ok(s_open(t, j, u, s), c, 2 * b + bu + e),
    decreases t
{
    reveal(s_ok);
    reveal(s_open);
    match t {
        STerm::Node(k, kids) => {
            let r = s_open(t, j, u, s);
            let rk = r->Node_1;
            assert(rk.len() == kids.len());
            assert forall|i: int| 0 <= i < rk.len() implies s_ok(#[trigger] rk[i], c + binds(k, rk.len(), i), 2 * b + bu + e) by {
                let bi = binds(k, kids.len(), i);
                assert(s_ok(kids[i], c + bi, b));
                lemma_ok_open(kids[i], c + bi, b, j + bi, u, bu, s + bi, e);
                assert(rk[i] == s_open(kids[i], j + bi, u, s + bi));
            }
        }
        STerm::Var(i) => {
            if i == j {
                lemma_ok_shift(u, 0, bu, 0, s);
                let r = s_shift(u, 0, s as int).unwrap();
                lemma_ok_lift(r, 0, bu + s, c);
                lemma_ok_weaken(r, c, bu + s + c, c, 2 * b + bu + e);
            }
        }
        _ => {}
    }
}

// A one-definition group, spelled with s3.  Triggered on view(t): unfolding `view` inside the solver
// yields the fuel-indexed form of kids_of, on which a kids_of trigger would never fire.
pub proof fn lemma_view_let1<'a>(t: Term<'a>)
    requires
        t.variant is Let,
        t.variant->Let_0@.len() == 1,
    ensures
        view(t) == STerm::Node(Kind::Let, s3(view(*t.variant->Let_0@[0].1), view(*t.variant->Let_0@[0].2), view(*t.variant->Let_1))),
{
    assert(kids_of(t) =~= s3(view(*t.variant->Let_0@[0].1), view(*t.variant->Let_0@[0].2), view(*t.variant->Let_1)));
}
