// ---- C06 stated about the RUNNING code (verified against the contracts of the real functions) -------------

// First sentence of C06: normalise and evaluate the same closed term; if both end in a ground result (an integer
// literal or a truth value) it is the same one.  Rests on the two contracts, on lemma_step_is_red (the evaluator's
// rules are among the normaliser's) and on the ASSUMED confluence of the reference relation (axiom_confluence).
fn corollary_normalise_agrees_with_evaluate<'a>(term: &Term<'a>)
    requires
        s_ok(view(*term), 0, BOUND() as nat),
        s_cl(view(*term), 0),
{
    proof { reveal(s_cl); }
    let mut ctx: Vec<Option<(Rc<Term<'a>>, usize)>> = Vec::new();
    proof { reveal(ctx_ok); reveal(s_cl); }
    let w = normalize_weak_head(term, &mut ctx);
    let e = evaluate(term);
    proof {
        assert(ctx_view(Seq::<Option<(Rc<Term<'a>>, usize)>>::empty()) =~= g_empty()) by { reveal(ctx_view); }
        if e is Ok {
            let v = e->Ok_0;
            if s_ground(view(v)) && s_ground(view(w)) {
                theorem_normalise_agrees_with_evaluate(view(*term), view(v), view(w));
                assert(view(v) == view(w));
            }
        }
    }
}

// Second sentence of C06, first half: every term (without unresolved holes) is judged equal to itself.
fn corollary_unify_reflexive<'a>(term: &Term<'a>, definitions_context: &mut Vec<Option<(Rc<Term<'a>>, usize)>>)
    requires
        s_ok(view(*term), 0, BOUND() as nat),
        s_cl(view(*term), old(definitions_context)@.len()),
        ctx_ok(old(definitions_context)@),
{
    let r = unify(term, term, definitions_context);
    assert(r);
}

// ---- vacuity guards of unit U8: every precondition is satisfiable ----------------------------------------
fn witness_u8() {
    broadcast use {group_ok, group_fv};
    let t = Term { source_range: None, variant: True };
    let a = Term { source_range: None, variant: Type };
    let b = Term { source_range: None, variant: Integer };
    assert(view(t) == STerm::Node(Kind::True, s0()));
    assert(view(a) == STerm::Node(Kind::Type, s0()));
    assert(view(b) == STerm::Node(Kind::Integer, s0()));
    let e = syntactically_equal(&t, &a);
    let cond = Term { source_range: None, variant: If(Rc::new(t), Rc::new(a), Rc::new(b)) };
    assert(view(cond) == STerm::Node(Kind::If, s3(view(t), view(a), view(b))));
    proof { assert forall|x: nat| !#[trigger] s_has_fv(view(cond), 0, x) by {} reveal(s_cl); assert(s_cl(view(cond), 0)); }
    let mut ctx: Vec<Option<(Rc<Term<'static>>, usize)>> = Vec::new();
    proof { reveal(ctx_ok); reveal(s_cl); }
    let w = normalize_weak_head(&cond, &mut ctx);
    let u = unify(&cond, &cond, &mut ctx);
    corollary_normalise_agrees_with_evaluate(&cond);
    corollary_unify_reflexive(&cond, &mut ctx);
    // a context with a LET-BOUND entry satisfies ctx_ok, and the variable that refers to it satisfies the preconditions:
    // the delta arm of the normaliser is reachable under the contract
    let tt = Term { source_range: None, variant: True };
    assert(view(tt) == STerm::Node(Kind::True, s0()));
    let mut ctx2: Vec<Option<(Rc<Term<'static>>, usize)>> = Vec::new();
    ctx2.push(Some((Rc::new(tt), 1usize)));
    let x = Term { source_range: None, variant: Variable("x", 0) };
    assert(view(x) == STerm::Var(0));
    proof {
        reveal(ctx_ok); reveal(s_cl);
        lemma_ok0(Kind::True, 0, HB() as nat);
        assert forall|y: nat| !#[trigger] s_has_fv(STerm::Node(Kind::True, s0()), 1, y) by {}
        assert forall|y: nat| !#[trigger] s_has_fv(STerm::Var(0), 1, y) by {}
        assert(ctx_ok(ctx2@));
    }
    let wx = normalize_weak_head(&x, &mut ctx2);
    proof { reveal(ctx_view); assert(s_delta(ctx_view(ctx2@), 0) is Some); }
}

// Must-fail canaries (quick tier): each asserts the NEGATION of something the contract implies at a concrete call.
fn canary_syntactically_equal() {
    broadcast use group_ok;
    let t = Term { source_range: None, variant: True };
    let a = Term { source_range: None, variant: True };
    assert(view(t) == STerm::Node(Kind::True, s0()));
    let e = syntactically_equal(&t, &a);
    assert(!e);
}
fn canary_normalize_weak_head() {
    broadcast use {group_ok, group_fv};
    let t = Term { source_range: None, variant: True };
    assert(view(t) == STerm::Node(Kind::True, s0()));
    let mut ctx: Vec<Option<(Rc<Term<'static>>, usize)>> = Vec::new();
    proof { reveal(ctx_ok); reveal(s_cl); }
    let w = normalize_weak_head(&t, &mut ctx);
    assert(!s_whnf(ctx_view(ctx@), view(w)));
}
fn canary_unify() {
    broadcast use {group_ok, group_fv};
    let t = Term { source_range: None, variant: True };
    assert(view(t) == STerm::Node(Kind::True, s0()));
    let mut ctx: Vec<Option<(Rc<Term<'static>>, usize)>> = Vec::new();
    proof { reveal(ctx_ok); reveal(s_cl); }
    let r = unify(&t, &t, &mut ctx);
    assert(!r);
}
