// ---- vacuity guards of unit U8 ----------------------------------------------------------------------
fn witness_u8() {
    broadcast use group_ok;
    let t = Term { source_range: None, variant: True };
    let a = Term { source_range: None, variant: Type };
    assert(view(t) == STerm::Node(Kind::True, s0()));
    assert(view(a) == STerm::Node(Kind::Type, s0()));
    let e = syntactically_equal(&t, &a);
}
fn canary_syntactically_equal() {
    broadcast use group_ok;
    let t = Term { source_range: None, variant: True };
    let a = Term { source_range: None, variant: True };
    assert(view(t) == STerm::Node(Kind::True, s0()));
    let e = syntactically_equal(&t, &a);
    assert(!e);
}
