// ---- unit U5 only: opaque stand-ins for what parse() mentions beyond its verified prefix (TRUSTED BASE) ----
// ---- the types in the signature of parse() that its verified prefix never looks into ------------------
#[verifier::external_type_specification]
#[verifier::external_body]
pub struct ExPath(std::path::Path);
#[verifier::external_body]
pub struct Error { _p: u8 }
pub mod term {
    #[verifier::external_body]
    pub struct Term<'a> { _p: std::marker::PhantomData<&'a u8> }
}
// R16: `return Err(error_factories.into_iter().map(|f| f(source_path, source_contents)).collect())` -- the
// rejecting exit of parse(); which messages it carries is outside the property
#[verifier::external_body]
fn parse_rejected<'a>() -> Result<term::Term<'a>, Vec<Error>> { unimplemented!() }
// R16: everything in parse() after [tag:error_check] (the three re-association calls, resolve_variables,
// check_definitions) is cut from the woven copy and replaced by this opaque call
#[verifier::external_body]
fn parse_remainder<'a>() -> Result<term::Term<'a>, Vec<Error>> { unimplemented!() }

