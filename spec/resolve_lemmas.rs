// ---- invariants of the environment and what collect_definitions returns ---------------------------------

// every name in scope was bound at a smaller depth; `_` is never in scope
spec fn env_ok(m: Env, d: nat) -> bool {
    !m.dom().contains(placeholder()) && forall|x: Seq<char>| #![trigger m.dom().contains(x)] m.dom().contains(x) ==> m[x] < d
}

// every binding of a is a binding of b
spec fn env_sub(a: Env, b: Env) -> bool { forall|x: Seq<char>| #![trigger a.dom().contains(x)] a.dom().contains(x) ==> b.dom().contains(x) && a[x] == b[x] }

// entry i of the vector built by collect_definitions is the i-th let of the chain
spec fn def_matches<'a>(e: (SourceVariable<'a>, Option<Rc<Term<'a>>>, Rc<Term<'a>>), t: PTerm, i: nat) -> bool {
    e.0.name@ == let_name(t, i)
    && (match e.1 { Some(a) => let_ann(t, i) == Some(pview(*a)), None => let_ann(t, i) is None })
    && pview(*e.2) == let_def(t, i)
}

// view through an Rc (proof code cannot move a Term out of an Rc)
spec fn pvr<'a>(r: Rc<Term<'a>>) -> PTerm { pview(*r) }

// ---- sizes ------------------------------------------------------------------------------------------
proof fn lemma_psize_seq(k: Seq<PTerm>, n: nat, i: int)
    requires 0 <= i < n <= k.len(),
    ensures psize(k[i]) <= psize_seq(k, n),
    decreases n,
{
    if i < n - 1 { lemma_psize_seq(k, (n - 1) as nat, i); }
}

proof fn lemma_psize_kid(t: PTerm, i: int)
    requires 0 <= i < t.kids.len(),
    ensures psize(t.kids[i]) < psize(t),
{
    lemma_psize_seq(t.kids, t.kids.len(), i);
}

// two or three children: the sum, spelled out
proof fn lemma_psize_2(t: PTerm)
    requires t.kids.len() == 2,
    ensures psize(t) == 1 + psize(t.kids[0]) + psize(t.kids[1]),
{
    let k = t.kids;
    assert(psize_seq(k, 0) == 0);
    assert(psize_seq(k, 1) == psize(k[0]) + psize_seq(k, 0));
    assert(psize_seq(k, 2) == psize(k[1]) + psize_seq(k, 1));
}

proof fn lemma_psize_3(t: PTerm)
    requires t.kids.len() == 3,
    ensures psize(t) == 1 + psize(t.kids[0]) + psize(t.kids[1]) + psize(t.kids[2]),
{
    let k = t.kids;
    assert(psize_seq(k, 0) == 0);
    assert(psize_seq(k, 1) == psize(k[0]) + psize_seq(k, 0));
    assert(psize_seq(k, 2) == psize(k[1]) + psize_seq(k, 1));
    assert(psize_seq(k, 3) == psize(k[2]) + psize_seq(k, 2));
}

// ---- the chain of lets ------------------------------------------------------------------------------
spec fn let_body(t: PTerm) -> PTerm { t.kids[t.kids.len() - 1] }

proof fn lemma_let_at_shift(t: PTerm, i: nat)
    ensures let_at(t, i + 1) == let_at(let_body(t), i),
    decreases i,
{
    reveal_with_fuel(let_at, 2);
    if i > 0 {
        lemma_let_at_shift(let_body(t), (i - 1) as nat);
        // let_at(t, i+1) = let_at(body(t), i) holds by definition; the recursive call is not even needed
    }
}

// every node of the chain before its end is a let; sizes: the chain length plus any one part fits into the whole
proof fn lemma_chain(t: PTerm, i: nat)
    requires i < let_len(t),
    ensures
        is_let(let_at(t, i)),
        let_len(t) + psize(let_def(t, i)) <= psize(t),
        let_len(t) + psize(let_inner(t)) <= psize(t),
        match let_ann(t, i) { Some(a) => let_len(t) + psize(a) <= psize(t), None => true },
        psize(let_def(t, i)) < psize(t),
        psize(let_inner(t)) < psize(t),
        match let_ann(t, i) { Some(a) => psize(a) < psize(t), None => true },
    decreases i,
{
    reveal_with_fuel(let_at, 2);
    reveal_with_fuel(let_len, 2);
    let b = let_body(t);
    if t.kids.len() == 2 { lemma_psize_2(t); } else { lemma_psize_3(t); }
    lemma_inner_size(b);
    assert(let_inner(t) == let_inner(b)) by { lemma_let_at_shift(t, let_len(b)); }
    if i > 0 {
        lemma_chain(b, (i - 1) as nat);
        lemma_let_at_shift(t, (i - 1) as nat);
    }
}

// the innermost body of any term (a chain of length 0 included)
proof fn lemma_inner_size(t: PTerm)
    ensures let_len(t) + psize(let_inner(t)) <= psize(t),
    decreases t,
{
    reveal_with_fuel(let_at, 2);
    reveal_with_fuel(let_len, 2);
    if is_let(t) {
        let b = let_body(t);
        if t.kids.len() == 2 { lemma_psize_2(t); } else { lemma_psize_3(t); }
        lemma_inner_size(b);
        assert(let_inner(t) == let_inner(b)) by { lemma_let_at_shift(t, let_len(b)); }
    }
}

// no ParseError node in any part of a chain
proof fn lemma_chain_npe(t: PTerm, i: nat)
    requires no_parse_error(t), i < let_len(t),
    ensures
        no_parse_error(let_def(t, i)),
        no_parse_error(let_inner(t)),
        match let_ann(t, i) { Some(a) => no_parse_error(a), None => true },
    decreases i,
{
    reveal(no_parse_error);
    reveal_with_fuel(let_at, 2);
    reveal_with_fuel(let_len, 2);
    let b = let_body(t);
    lemma_inner_npe(b);
    assert(let_inner(t) == let_inner(b)) by { lemma_let_at_shift(t, let_len(b)); }
    if i > 0 {
        lemma_chain_npe(b, (i - 1) as nat);
        lemma_let_at_shift(t, (i - 1) as nat);
    }
}

proof fn lemma_inner_npe(t: PTerm)
    requires no_parse_error(t),
    ensures no_parse_error(let_inner(t)),
    decreases t,
{
    reveal(no_parse_error);
    reveal_with_fuel(let_at, 2);
    reveal_with_fuel(let_len, 2);
    if is_let(t) {
        let b = let_body(t);
        lemma_inner_npe(b);
        assert(let_inner(t) == let_inner(b)) by { lemma_let_at_shift(t, let_len(b)); }
    }
}

// ---- what the arms of resolve_variables use -----------------------------------------------------------
// every child is smaller and (under the precondition) free of ParseError nodes
proof fn lemma_kids(t: PTerm)
    ensures
        forall|i: int| #![trigger t.kids[i]] 0 <= i < t.kids.len() ==> psize(t.kids[i]) < psize(t),
        no_parse_error(t) ==> forall|i: int| #![trigger t.kids[i]] 0 <= i < t.kids.len() ==> no_parse_error(t.kids[i]),
{
    reveal(no_parse_error);
    assert forall|i: int| #![trigger t.kids[i]] 0 <= i < t.kids.len() implies psize(t.kids[i]) < psize(t) by { lemma_psize_kid(t, i); }
}

spec fn plain(k: PKind) -> bool { !(k is Variable) && !(k is Lambda) && !(k is Pi) && !(k is Let) }

// a node without binders: same constructor, every child translated in the same scope
proof fn lemma_resolve_plain(t: PTerm, m: Env, d: nat)
    requires plain(t.kind),
    ensures
        t.kids.len() == 0 ==> resolve(t, m, d) == term::STerm::Node(core_kind(t.kind), term::s0()),
        t.kids.len() == 1 ==> resolve(t, m, d) == term::STerm::Node(core_kind(t.kind), term::s1(resolve(t.kids[0], m, d))),
        t.kids.len() == 2 ==> resolve(t, m, d) == term::STerm::Node(core_kind(t.kind), term::s2(resolve(t.kids[0], m, d), resolve(t.kids[1], m, d))),
        t.kids.len() == 3 ==> resolve(t, m, d) == term::STerm::Node(core_kind(t.kind), term::s3(resolve(t.kids[0], m, d), resolve(t.kids[1], m, d), resolve(t.kids[2], m, d))),
        scoped(t, m.dom()) == (forall|i: int| #![trigger t.kids[i]] 0 <= i < t.kids.len() ==> scoped(t.kids[i], m.dom())),
{
    reveal(resolve);
    reveal(scoped);
    lemma_kids(t);
    let k = t.kids;
    let kids = Seq::new(k.len(), |i: int| resolve_part(t, k[i], m, d));
    let r = resolve(t, m, d);
    assert(r is Node && r->Node_0 == core_kind(t.kind));
    assert(r->Node_1 =~= kids);
    assert(r == term::STerm::Node(core_kind(t.kind), kids));
    if k.len() == 0 { assert(kids =~= term::s0()); }
    if k.len() == 1 { assert(kids =~= term::s1(resolve(k[0], m, d))); }
    if k.len() == 2 { assert(kids =~= term::s2(resolve(k[0], m, d), resolve(k[1], m, d))); }
    if k.len() == 3 { assert(kids =~= term::s3(resolve(k[0], m, d), resolve(k[1], m, d), resolve(k[2], m, d))); }
}

// a fresh hole is a Hole
proof fn lemma_fresh_hole<'a>(c: Rc<RefCell<Option<term::Term<'a>>>>, s: usize)
    requires !term::hole_resolved(c),
    ensures term::view_hole(c, s) == term::STerm::Hole,
{
    reveal(term::view_hole);
}

// ---- binding a group ----------------------------------------------------------------------------------
// x is one of the first n names pushed on the "to be removed" list
spec fn added<'a>(v: Seq<&'a str>, n: int, x: Seq<char>) -> bool { exists|j: int| 0 <= j < n && j < v.len() && #[trigger] v[j]@ == x }

spec fn group_fresh(dom: Set<Seq<char>>, t: PTerm, k: nat) -> bool {
    forall|j: nat| #![trigger let_name(t, j)] j < k ==> fresh(let_name(t, j), dom_group(dom, t, j))
}

// binding k names: the domain grows by exactly those names; if they are all fresh, nothing bound before is touched
proof fn lemma_bind_group(m: Env, t: PTerm, d: nat, k: nat)
    ensures
        bind_group(m, t, d, k).dom() == dom_group(m.dom(), t, k),
        forall|x: Seq<char>| #![trigger m.dom().contains(x)] m.dom().contains(x) ==> dom_group(m.dom(), t, k).contains(x),
        group_fresh(m.dom(), t, k) ==> forall|x: Seq<char>| #![trigger m.dom().contains(x)] m.dom().contains(x) ==> bind_group(m, t, d, k)[x] == m[x],
        !m.dom().contains(placeholder()) ==> !dom_group(m.dom(), t, k).contains(placeholder()),
    decreases k,
{
    if k > 0 {
        let k1 = (k - 1) as nat;
        lemma_bind_group(m, t, d, k1);
        let x = let_name(t, k1);
        assert(bind_group(m, t, d, k) == bind(bind_group(m, t, d, k1), x, d + k1));
        assert(dom_group(m.dom(), t, k) == dom_bind(dom_group(m.dom(), t, k1), x));
        assert(bind_group(m, t, d, k).dom() =~= dom_group(m.dom(), t, k));
        if group_fresh(m.dom(), t, k) {
            assert(group_fresh(m.dom(), t, k1));
            assert(fresh(let_name(t, k1), dom_group(m.dom(), t, k1)));
        }
    }
}

proof fn lemma_added_push<'a>(v: Seq<&'a str>, s: &'a str, x: Seq<char>)
    ensures added(v.push(s), (v.len() + 1) as int, x) == (added(v, v.len() as int, x) || s@ == x),
{
    let w = v.push(s);
    if added(v, v.len() as int, x) {
        let j = choose|j: int| 0 <= j < v.len() && j < v.len() && #[trigger] v[j]@ == x;
        assert(w[j]@ == x);
    }
    if s@ == x { assert(w[v.len() as int]@ == x); }
    if added(w, (v.len() + 1) as int, x) {
        let j = choose|j: int| 0 <= j < v.len() + 1 && j < w.len() && #[trigger] w[j]@ == x;
        if j < v.len() { assert(v[j]@ == x); }
    }
}

proof fn lemma_added_step<'a>(v: Seq<&'a str>, n: int, x: Seq<char>)
    requires 0 <= n < v.len(),
    ensures added(v, n + 1, x) == (added(v, n, x) || v[n]@ == x),
{
    if added(v, n, x) {
        let j = choose|j: int| 0 <= j < n && j < v.len() && #[trigger] v[j]@ == x;
        assert(v[j]@ == x);
    }
    if v[n]@ == x { assert(v[n]@ == x); }
    if added(v, n + 1, x) {
        let j = choose|j: int| 0 <= j < n + 1 && j < v.len() && #[trigger] v[j]@ == x;
        if j < n { assert(v[j]@ == x); }
    }
}

// entry j of the resolved group: annotation (or a hole) and definition, both translated in the group's scope
spec fn group_entry_ok<'a>(e: (&'a str, Rc<term::Term<'a>>, Rc<term::Term<'a>>), t: PTerm, j: nat, m2: Env, d2: nat) -> bool {
    (match let_ann(t, j) {
        Some(a) => scoped(a, m2.dom()) && term::view(*e.1) == resolve(a, m2, d2),
        None => term::view(*e.1) == term::STerm::Hole,
    })
    && scoped(let_def(t, j), m2.dom()) && term::view(*e.2) == resolve(let_def(t, j), m2, d2)
}

// ---- unfolding lemmas for the nodes that bind or use names (resolve and scoped are opaque) ---------------
proof fn lemma_resolve_unfold(t: PTerm, m: Env, d: nat)
    ensures
        t.kind is Variable ==> {
            let x = t.kind->Variable_0;
            &&& resolve(t, m, d) == (if m.dom().contains(x) && m[x] < d { term::STerm::Var((d - 1 - m[x]) as nat) } else { term::STerm::Hole })
            &&& scoped(t, m.dom()) == (x == placeholder() || m.dom().contains(x))
        },
        t.kind is Lambda && t.kids.len() == (if t.kind->Lambda_2 { 2nat } else { 1nat }) ==> {
            let x = t.kind->Lambda_0;
            let last = t.kids[t.kids.len() - 1];
            &&& resolve(t, m, d) == term::STerm::Node(term::Kind::Lambda(t.kind->Lambda_1), term::s2(
                    if t.kind->Lambda_2 { resolve(t.kids[0], m, d) } else { term::STerm::Hole }, resolve(last, bind(m, x, d), d + 1)))
            &&& scoped(t, m.dom()) == ((t.kind->Lambda_2 ==> scoped(t.kids[0], m.dom())) && fresh(x, m.dom()) && scoped(last, dom_bind(m.dom(), x)))
        },
        t.kind is Pi && t.kids.len() == 2 ==> {
            let x = t.kind->Pi_0;
            &&& resolve(t, m, d) == term::STerm::Node(term::Kind::Pi(t.kind->Pi_1), term::s2(resolve(t.kids[0], m, d), resolve(t.kids[1], bind(m, x, d), d + 1)))
            &&& scoped(t, m.dom()) == (scoped(t.kids[0], m.dom()) && fresh(x, m.dom()) && scoped(t.kids[1], dom_bind(m.dom(), x)))
        },
{
    reveal(resolve);
    reveal(scoped);
    lemma_kids(t);
}

// the translation of a group, with the size guards discharged
spec fn group_kids(t: PTerm, m2: Env, d2: nat) -> Seq<term::STerm> {
    let n = let_len(t);
    Seq::new((2 * n + 1) as nat, |i: int|
        if 0 <= i < n { match let_ann(t, i as nat) { Some(a) => resolve(a, m2, d2), None => term::STerm::Hole } }
        else if n <= i < 2 * n { resolve(let_def(t, (i - n) as nat), m2, d2) }
        else { resolve(let_inner(t), m2, d2) })
}

proof fn lemma_resolve_let(t: PTerm, m: Env, d: nat)
    requires is_let(t),
    ensures
        resolve(t, m, d) == term::STerm::Node(term::Kind::Let, group_kids(t, bind_group(m, t, d, let_len(t)), d + let_len(t))),
        scoped(t, m.dom()) == {
            let n = let_len(t);
            let dom2 = dom_group(m.dom(), t, n);
            &&& group_fresh(m.dom(), t, n)
            &&& forall|i: nat| #![trigger let_ann(t, i)] i < n ==> match let_ann(t, i) { Some(a) => scoped(a, dom2), None => true }
            &&& forall|i: nat| #![trigger let_def(t, i)] i < n ==> scoped(let_def(t, i), dom2)
            &&& scoped(let_inner(t), dom2)
        },
{
    reveal(resolve);
    reveal(scoped);
    let n = let_len(t);
    let m2 = bind_group(m, t, d, n);
    let d2 = d + n;
    assert forall|j: nat| j < n implies
        (match let_ann(t, j) { Some(a) => psize(a) < psize(t), None => true }) && psize(#[trigger] let_def(t, j)) < psize(t) by { lemma_chain(t, j); }
    lemma_inner_size(t);
    assert(n >= 1) by { reveal_with_fuel(let_len, 2); }
    lemma_chain(t, 0);
    let r = resolve(t, m, d);
    assert(r is Node && r->Node_0 == term::Kind::Let);
    assert forall|i: int| 0 <= i < 2 * n + 1 implies r->Node_1[i] == group_kids(t, m2, d2)[i] by {
        if i < n { lemma_chain(t, i as nat); } else if i < 2 * n { lemma_chain(t, (i - n) as nat); }
    }
    assert(r->Node_1 =~= group_kids(t, m2, d2));
    // scoped: the size guards of scoped_part hold
    let dom2 = dom_group(m.dom(), t, n);
    assert forall|i: nat| i < n implies (match #[trigger] let_ann(t, i) { Some(a) => scoped_part(t, a, dom2) == scoped(a, dom2), None => true }) by { lemma_chain(t, i); }
    assert forall|i: nat| i < n implies scoped_part(t, #[trigger] let_def(t, i), dom2) == scoped(let_def(t, i), dom2) by { lemma_chain(t, i); }
}
