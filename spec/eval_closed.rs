// ---- sanity of the reference semantics: a step never makes a variable free -------------------------
// s_closed_at(t, c): no variable of t points at or beyond cutoff c.  lemma_step_closed shows that s_step
// preserves it for every c.  This is an independent check of the index plumbing of s_prim (beta) and of
// s_let_subst / s_unfolded (a wrong index there would let a variable escape its binder), and hence -- via
// the contract of `step` -- of the plumbing in the real evaluator.

pub open spec fn s_closed_at(t: STerm, c: nat) -> bool {
    forall|x: nat| !#[trigger] s_has_fv(t, c, x)
}

// moving the cutoff: index c + (x + e) is index (c + e) + x
pub proof fn law_fv_cut(t: STerm, c: nat, e: nat, x: nat)
    ensures s_has_fv(t, c, x + e) <==> s_has_fv(t, c + e, x),
    decreases t
{
    reveal(s_has_fv);
    match t {
        STerm::Node(k, kids) => {
            assert(t->Node_1 == kids);
            assert forall|i: int| 0 <= i < kids.len() implies
                (s_has_fv(#[trigger] kids[i], c + binds(k, kids.len(), i), x + e) <==> s_has_fv(kids[i], c + e + binds(k, kids.len(), i), x)) by {
                law_fv_cut(kids[i], c + binds(k, kids.len(), i), e, x);
            }
            if s_has_fv(t, c, x + e) {
                let i = choose|i: int| #![trigger kids[i]] 0 <= i < kids.len() && s_has_fv(kids[i], c + binds(k, kids.len(), i), x + e);
                assert(s_has_fv(kids[i], c + e + binds(k, kids.len(), i), x));
            }
            if s_has_fv(t, c + e, x) {
                let i = choose|i: int| #![trigger kids[i]] 0 <= i < kids.len() && s_has_fv(kids[i], c + e + binds(k, kids.len(), i), x);
                assert(s_has_fv(kids[i], c + binds(k, kids.len(), i), x + e));
            }
        }
        _ => {}
    }
}

pub proof fn lemma_closed_kids(k: Kind, kids: Seq<STerm>, c: nat)
    ensures s_closed_at(STerm::Node(k, kids), c) <==> forall|i: int| 0 <= i < kids.len() ==> s_closed_at(#[trigger] kids[i], c + binds(k, kids.len(), i)),
{
    reveal(s_has_fv);
    let t = STerm::Node(k, kids);
    assert(t->Node_1 == kids);
    if s_closed_at(t, c) {
        assert forall|i: int| 0 <= i < kids.len() implies s_closed_at(#[trigger] kids[i], c + binds(k, kids.len(), i)) by {
            assert forall|x: nat| !#[trigger] s_has_fv(kids[i], c + binds(k, kids.len(), i), x) by {
                if s_has_fv(kids[i], c + binds(k, kids.len(), i), x) { assert(s_has_fv(t, c, x)); }
            }
        }
    }
    if forall|i: int| 0 <= i < kids.len() ==> s_closed_at(#[trigger] kids[i], c + binds(k, kids.len(), i)) {
        assert forall|x: nat| !#[trigger] s_has_fv(t, c, x) by {
            if s_has_fv(t, c, x) {
                let i = choose|i: int| #![trigger kids[i]] 0 <= i < kids.len() && s_has_fv(kids[i], c + binds(k, kids.len(), i), x);
                assert(s_closed_at(kids[i], c + binds(k, kids.len(), i)));
            }
        }
    }
}

pub proof fn lemma_hole_free_kids(k: Kind, kids: Seq<STerm>)
    ensures s_hole_free(STerm::Node(k, kids)) <==> forall|i: int| 0 <= i < kids.len() ==> s_hole_free(#[trigger] kids[i]),
{
    reveal(s_hole_free);
    assert(STerm::Node(k, kids)->Node_1 == kids);
}

// opening a term closed at cc + 1 (replaced index cc) with a term closed at cc gives a term closed at cc
pub proof fn lemma_open_closed(t: STerm, j: nat, u: STerm, cc: nat)
    requires
        s_hole_free(t), s_hole_free(u),
        j <= cc,
        s_closed_at(t, cc + 1),
        s_closed_at(u, cc),
    ensures
        s_closed_at(s_open(t, j, u, 0), cc),
{
    let r = s_open(t, j, u, 0);
    assert forall|x: nat| !#[trigger] s_has_fv(r, cc, x) by {
        let y = x + cc;
        law_fv_cut(r, 0, cc, x);          // has_fv(r, 0, x + cc) <==> has_fv(r, cc, x)
        law_fv_open(t, j, 0, u, 0, y);
        law_fv_cut(t, 0, cc + 1, x);      // has_fv(t, 0, x + cc + 1) <==> has_fv(t, cc + 1, x)
        law_fv_cut(u, 0, cc, x);
        assert(y + 1 == x + (cc + 1));
    }
}

pub proof fn lemma_open_hole_free(t: STerm, j: nat, u: STerm, s: nat)
    requires s_hole_free(t), s_hole_free(u),
    ensures s_hole_free(s_open(t, j, u, s)),
    decreases t
{
    reveal(s_hole_free);
    reveal(s_open);
    match t {
        STerm::Node(k, kids) => {
            let r = s_open(t, j, u, s);
            let rk = r->Node_1;
            assert forall|i: int| 0 <= i < rk.len() implies s_hole_free(#[trigger] rk[i]) by {
                lemma_open_hole_free(kids[i], j + binds(k, kids.len(), i), u, s + binds(k, kids.len(), i));
            }
        }
        STerm::Var(v) => {
            if v == j {
                law_shift_up_total(u, 0, s);
                law_shift_some_hole_free(u, 0, s as int);
            }
        }
        _ => {}
    }
}

// raising by one a term closed at cc gives a term closed at cc + 1
pub proof fn lemma_raise_closed(t: STerm, cc: nat)
    requires s_hole_free(t), s_closed_at(t, cc),
    ensures s_hole_free(s_raise(t, 1)), s_closed_at(s_raise(t, 1), cc + 1),
{
    law_shift_up_total(t, 0, 1);
    law_shift_some_hole_free(t, 0, 1);
    let r = s_raise(t, 1);
    assert(r == s_shift(t, 0, 1).unwrap());
    assert forall|x: nat| !#[trigger] s_has_fv(r, cc + 1, x) by {
        law_fv_cut(r, 0, cc + 1, x);
        law_fv_shift(t, 0, 0, 1, x + cc + 1);
        law_fv_cut(t, 0, cc, x);
        assert(((x + cc + 1) - 1) as nat == x + cc);
    }
}

pub proof fn lemma_var0_closed(cc: nat)
    requires cc >= 1,
    ensures s_hole_free(STerm::Var(0)), s_closed_at(STerm::Var(0), cc),
{
    reveal(s_hole_free);
    assert forall|x: nat| !#[trigger] s_has_fv(STerm::Var(0), cc, x) by { lemma_fv_var(0, cc, x); }
}

pub proof fn lemma_let_subst_closed(kids: Seq<STerm>, m: nat, c: nat)
    requires
        m >= 1,
        kids.len() == 2 * m + 1,
        forall|i: int| 0 <= i < kids.len() ==> s_hole_free(#[trigger] kids[i]) && s_closed_at(kids[i], c + m),
    ensures
        s_hole_free(s_let_subst(kids, m)),
        s_closed_at(s_let_subst(kids, m), c),
{
    let cm = c + m;
    let c1 = (cm - 1) as nat;
    let v = STerm::Var(0);
    let a0 = kids[0];
    let d0 = kids[m as int];
    assert(s_hole_free(a0) && s_closed_at(a0, cm));
    assert(s_hole_free(d0) && s_closed_at(d0, cm));
    lemma_var0_closed(cm);
    lemma_raise_closed(a0, cm);
    lemma_raise_closed(d0, cm);
    let a0s = s_raise(a0, 1);
    let d0s = s_raise(d0, 1);
    // the copies under the re-bound x_0: x_0 (index m after raising) is re-pointed at index 0
    lemma_open_closed(a0s, m, v, cm);
    lemma_open_closed(d0s, m, v, cm);
    lemma_open_hole_free(a0s, m, v, 0);
    lemma_open_hole_free(d0s, m, v, 0);
    let a1 = s_open(a0s, m, v, 0);
    let d1 = s_open(d0s, m, v, 0);
    let wk = s3(a1, d1, v);
    let w = STerm::Node(Kind::Let, wk);
    lemma_hole_free_kids(Kind::Let, wk);
    lemma_closed_kids(Kind::Let, wk, c1);
    assert forall|i: int| 0 <= i < wk.len() implies s_hole_free(#[trigger] wk[i]) && s_closed_at(wk[i], c1 + binds(Kind::Let, wk.len(), i)) by {
        assert(binds(Kind::Let, 3, i) == 1);
        assert(i == 0 || i == 1 || i == 2);
    }
    assert(s_hole_free(w) && s_closed_at(w, c1));
    // u = d_0[x_0 := w]
    lemma_open_closed(d0, (m - 1) as nat, w, c1);
    lemma_open_hole_free(d0, (m - 1) as nat, w, 0);
    let u = s_open(d0, (m - 1) as nat, w, 0);
    assert(u == s_unfolded(kids, m));
    // the remaining annotations, definitions and the body with x_0 := u
    let r = s_let_subst(kids, m);
    let rk = r->Node_1;
    assert(rk.len() == 2 * m - 1);
    lemma_hole_free_kids(Kind::Let, rk);
    lemma_closed_kids(Kind::Let, rk, c);
    assert forall|i: int| 0 <= i < rk.len() implies s_hole_free(#[trigger] rk[i]) && s_closed_at(rk[i], c + binds(Kind::Let, rk.len(), i)) by {
        let i2 = if i < m - 1 { i + 1 } else { i + 2 };
        assert(s_hole_free(kids[i2]) && s_closed_at(kids[i2], cm));
        lemma_open_closed(kids[i2], (m - 1) as nat, u, c1);
        lemma_open_hole_free(kids[i2], (m - 1) as nat, u, 0);
        assert(rk[i] == s_open(kids[i2], (m - 1) as nat, u, 0));
        assert(binds(Kind::Let, rk.len(), i) == m - 1);
    }
    assert(r == STerm::Node(Kind::Let, rk));
}

// THE sanity lemma: a step of the reference semantics never frees a variable.
pub proof fn lemma_step_closed(t: STerm, c: nat)
    requires
        s_hole_free(t),
        s_closed_at(t, c),
        s_step(t) is Some,
    ensures
        s_hole_free(s_step(t).unwrap()),
        s_closed_at(s_step(t).unwrap(), c),
    decreases t
{
    reveal(s_step);
    match t {
        STerm::Node(k, kids) => {
            assert(t->Node_1 == kids);
            lemma_hole_free_kids(k, kids);
            lemma_closed_kids(k, kids, c);
            if is_binary(k) && kids.len() == 2 {
                let a = kids[0];
                let b = kids[1];
                assert(binds(k, 2, 0) == 0 && binds(k, 2, 1) == 0);
                assert(s_hole_free(a) && s_closed_at(a, c));
                assert(s_hole_free(b) && s_closed_at(b, c));
                if s_step(a) is Some {
                    lemma_step_closed(a, c);
                    let nk = s2(s_step(a).unwrap(), b);
                    lemma_hole_free_kids(k, nk);
                    lemma_closed_kids(k, nk, c);
                    assert forall|i: int| 0 <= i < nk.len() implies s_hole_free(#[trigger] nk[i]) && s_closed_at(nk[i], c + binds(k, nk.len(), i)) by { assert(i == 0 || i == 1); }
                } else if s_step(b) is Some {
                    lemma_step_closed(b, c);
                    let nk = s2(a, s_step(b).unwrap());
                    lemma_hole_free_kids(k, nk);
                    lemma_closed_kids(k, nk, c);
                    assert forall|i: int| 0 <= i < nk.len() implies s_hole_free(#[trigger] nk[i]) && s_closed_at(nk[i], c + binds(k, nk.len(), i)) by { assert(i == 0 || i == 1); }
                } else if k == Kind::App {
                    match a {
                        STerm::Node(Kind::Lambda(_), ks) => {
                            if ks.len() == 2 {
                                assert(a->Node_1 == ks);
                                lemma_hole_free_kids(a->Node_0, ks);
                                lemma_closed_kids(a->Node_0, ks, c);
                                assert(s_hole_free(ks[1]) && s_closed_at(ks[1], c + binds(a->Node_0, ks.len(), 1)));
                                lemma_open_closed(ks[1], 0, b, c);
                                lemma_open_hole_free(ks[1], 0, b, 0);
                            }
                        }
                        _ => {}
                    }
                } else {
                    // literal results have no children
                    match (lit_of(a), lit_of(b)) {
                        (Some(x), Some(y)) => {
                            let r = s_prim(k, a, b).unwrap();
                            assert(r->Node_1 =~= s0());
                            lemma_hole_free_kids(r->Node_0, s0());
                            lemma_closed_kids(r->Node_0, s0(), c);
                        }
                        _ => {}
                    }
                }
            } else if k == Kind::Neg && kids.len() == 1 {
                let a = kids[0];
                assert(s_hole_free(a) && s_closed_at(a, c));
                if s_step(a) is Some {
                    lemma_step_closed(a, c);
                    let nk = s1(s_step(a).unwrap());
                    lemma_hole_free_kids(k, nk);
                    lemma_closed_kids(k, nk, c);
                    assert forall|i: int| 0 <= i < nk.len() implies s_hole_free(#[trigger] nk[i]) && s_closed_at(nk[i], c + binds(k, nk.len(), i)) by { assert(i == 0); }
                } else {
                    match lit_of(a) {
                        Some(x) => {
                            lemma_hole_free_kids(Kind::Lit(-x), s0());
                            lemma_closed_kids(Kind::Lit(-x), s0(), c);
                        }
                        None => {}
                    }
                }
            } else if k == Kind::If && kids.len() == 3 {
                let a = kids[0];
                assert(s_hole_free(a) && s_closed_at(a, c));
                assert(s_hole_free(kids[1]) && s_closed_at(kids[1], c));
                assert(s_hole_free(kids[2]) && s_closed_at(kids[2], c));
                if s_step(a) is Some {
                    lemma_step_closed(a, c);
                    let nk = s3(s_step(a).unwrap(), kids[1], kids[2]);
                    lemma_hole_free_kids(k, nk);
                    lemma_closed_kids(k, nk, c);
                    assert forall|i: int| 0 <= i < nk.len() implies s_hole_free(#[trigger] nk[i]) && s_closed_at(nk[i], c + binds(k, nk.len(), i)) by { assert(i == 0 || i == 1 || i == 2); }
                }
            } else if k == Kind::Let && kids.len() % 2 == 1 {
                let m = ((kids.len() - 1) / 2) as nat;
                assert forall|i: int| 0 <= i < kids.len() implies binds(k, kids.len(), i) == m by {}
                if m == 0 {
                    assert(s_hole_free(kids[0]) && s_closed_at(kids[0], c + binds(k, kids.len(), 0)));
                } else {
                    let d0 = kids[m as int];
                    assert(s_hole_free(d0) && s_closed_at(d0, c + binds(k, kids.len(), m as int)));
                    if s_step(d0) is Some {
                        lemma_step_closed(d0, c + m);
                        let nk = kids.update(m as int, s_step(d0).unwrap());
                        lemma_hole_free_kids(k, nk);
                        lemma_closed_kids(k, nk, c);
                        assert forall|i: int| 0 <= i < nk.len() implies s_hole_free(#[trigger] nk[i]) && s_closed_at(nk[i], c + binds(k, nk.len(), i)) by {
                            if i != m { assert(nk[i] == kids[i]); assert(s_hole_free(kids[i]) && s_closed_at(kids[i], c + binds(k, kids.len(), i))); }
                        }
                    } else {
                        assert forall|i: int| 0 <= i < kids.len() implies s_hole_free(#[trigger] kids[i]) && s_closed_at(kids[i], c + m) by {
                            assert(s_closed_at(kids[i], c + binds(k, kids.len(), i)));
                        }
                        lemma_let_subst_closed(kids, m, c);
                    }
                }
            }
        }
        _ => {}
    }
}
