// ---- helper lemmas for the exec proofs of unit U8 (syntactically_equal, normalize_weak_head, unify) -------

// the children of a well-formed term are well formed at cutoff 0 (binders only make the cutoff larger)
pub proof fn lemma_term_kids_ok<'a>(t: Term<'a>, b: nat)
    requires s_ok(view(t), 0, b)
    ensures
        match t.variant {
            Lambda(_, _, x, y) | Pi(_, _, x, y) | Application(x, y) | Sum(x, y) | Difference(x, y) | Product(x, y) | Quotient(x, y)
            | LessThan(x, y) | LessThanOrEqualTo(x, y) | EqualTo(x, y) | GreaterThan(x, y) | GreaterThanOrEqualTo(x, y)
                => s_ok(view(*x), 0, b) && s_ok(view(*y), 0, b),
            Negation(x) => s_ok(view(*x), 0, b),
            If(x, y, z) => s_ok(view(*x), 0, b) && s_ok(view(*y), 0, b) && s_ok(view(*z), 0, b),
            Let(defs, body) => s_ok(view(*body), 0, b) && forall|j: int| 0 <= j < defs@.len() ==> s_ok(view(*(#[trigger] defs@[j]).1), 0, b) && s_ok(view(*defs@[j].2), 0, b),
            _ => true,
        },
{
    broadcast use group_ok;
    match t.variant {
        Lambda(_, _, x, y) | Pi(_, _, x, y) => {
            lemma_ok_weaken(vr(&y), 1, b, 0, b);
        }
        Let(defs, body) => {
            lemma_ok_let(t, defs, body, 0, b);
            lemma_ok_weaken(vr(&body), defs@.len(), b, 0, b);
            assert forall|j: int| 0 <= j < defs@.len() implies s_ok(view(*(#[trigger] defs@[j]).1), 0, b) && s_ok(view(*defs@[j].2), 0, b) by {
                lemma_ok_weaken(view(*defs@[j].1), defs@.len(), b, 0, b);
                lemma_ok_weaken(view(*defs@[j].2), defs@.len(), b, 0, b);
            }
        }
        _ => {}
    }
}

// When do two terms (neither of them a hole node) have the same erasure?  Constructor by constructor.
pub open spec fn erase_eq_by_case<'a>(t1: Term<'a>, t2: Term<'a>) -> bool {
    match (t1.variant, t2.variant) {
        (Type, Type) | (Integer, Integer) | (Boolean, Boolean) | (True, True) | (False, False) => true,
        (Variable(_, i1), Variable(_, i2)) => i1 == i2,
        (Lambda(_, m1, _, b1), Lambda(_, m2, _, b2)) => m1 == m2 && s_erase(view(*b1)) == s_erase(view(*b2)),
        (Pi(_, m1, d1, c1), Pi(_, m2, d2, c2)) => m1 == m2 && s_erase(view(*d1)) == s_erase(view(*d2)) && s_erase(view(*c1)) == s_erase(view(*c2)),
        (Application(a1, b1), Application(a2, b2)) | (Sum(a1, b1), Sum(a2, b2)) | (Difference(a1, b1), Difference(a2, b2))
        | (Product(a1, b1), Product(a2, b2)) | (Quotient(a1, b1), Quotient(a2, b2)) | (LessThan(a1, b1), LessThan(a2, b2))
        | (LessThanOrEqualTo(a1, b1), LessThanOrEqualTo(a2, b2)) | (EqualTo(a1, b1), EqualTo(a2, b2))
        | (GreaterThan(a1, b1), GreaterThan(a2, b2)) | (GreaterThanOrEqualTo(a1, b1), GreaterThanOrEqualTo(a2, b2))
            => s_erase(view(*a1)) == s_erase(view(*a2)) && s_erase(view(*b1)) == s_erase(view(*b2)),
        (IntegerLiteral(x1), IntegerLiteral(x2)) => bigint_val(x1) == bigint_val(x2),
        (Negation(a1), Negation(a2)) => s_erase(view(*a1)) == s_erase(view(*a2)),
        (If(a1, b1, c1), If(a2, b2, c2)) => s_erase(view(*a1)) == s_erase(view(*a2)) && s_erase(view(*b1)) == s_erase(view(*b2)) && s_erase(view(*c1)) == s_erase(view(*c2)),
        (Let(defs1, b1), Let(defs2, b2)) => defs1@.len() == defs2@.len() && s_erase(view(*b1)) == s_erase(view(*b2))
            && forall|j: int| 0 <= j < defs1@.len() ==> s_erase(view(*(#[trigger] defs1@[j]).2)) == s_erase(view(*defs2@[j].2)),
        _ => false,
    }
}

pub proof fn lemma_erase_eq_terms<'a>(t1: Term<'a>, t2: Term<'a>)
    requires !(t1.variant is Unifier), !(t2.variant is Unifier)
    ensures (s_erase(view(t1)) == s_erase(view(t2))) == erase_eq_by_case(t1, t2)
{
    let v1 = view(t1);
    let v2 = view(t2);
    lemma_erase_shapes(v1, v2);
    lemma_erase_shapes(v2, v1);
    if t1.variant is Variable || t2.variant is Variable {
        if t1.variant is Variable { lemma_erase_var(t1.variant->Variable_1 as nat); }
        if t2.variant is Variable { lemma_erase_var(t2.variant->Variable_1 as nat); }
    } else {
        let k1 = kind_of(t1.variant);
        let k2 = kind_of(t2.variant);
        let kids1 = kids_of(t1);
        let kids2 = kids_of(t2);
        assert(v1 == STerm::Node(k1, kids1));
        assert(v2 == STerm::Node(k2, kids2));
        lemma_erase_eq(k1, kids1, k2, kids2);
        let lhs = k1 == k2 && kids1.len() == kids2.len()
            && forall|i: int| 0 <= i < kids1.len() && !erased_pos(k1, kids1.len(), i) ==> s_erase(#[trigger] kids1[i]) == s_erase(kids2[i]);
        match (t1.variant, t2.variant) {
            (Let(defs1, b1), Let(defs2, b2)) => {
                lemma_let_kids(t1, defs1, b1);
                lemma_let_kids(t2, defs2, b2);
                let m = defs1@.len() as int;
                if lhs {
                    assert(kids1.len() == 2 * m + 1);
                    assert(defs1@.len() == defs2@.len());
                    assert(s_erase(kids1[2 * m]) == s_erase(kids2[2 * m]));
                    assert forall|j: int| 0 <= j < m implies s_erase(view(*(#[trigger] defs1@[j]).2)) == s_erase(view(*defs2@[j].2)) by {
                        assert(s_erase(kids1[j + m]) == s_erase(kids2[j + m]));
                    }
                }
                if erase_eq_by_case(t1, t2) {
                    assert forall|i: int| 0 <= i < kids1.len() && !erased_pos(k1, kids1.len(), i) implies s_erase(#[trigger] kids1[i]) == s_erase(kids2[i]) by {
                        if i < 2 * m {
                            let j = i - m;
                            assert(kids1[j + m] == view(*defs1@[j].2));
                            assert(kids2[j + m] == view(*defs2@[j].2));
                        }
                    }
                }
            }
            _ => {
                if lhs {
                    if kids1.len() >= 1 && !erased_pos(k1, kids1.len(), 0) { assert(s_erase(kids1[0]) == s_erase(kids2[0])); }
                    if kids1.len() >= 2 { assert(s_erase(kids1[1]) == s_erase(kids2[1])); }
                    if kids1.len() >= 3 { assert(s_erase(kids1[2]) == s_erase(kids2[2])); }
                }
                if erase_eq_by_case(t1, t2) {
                    assert forall|i: int| 0 <= i < kids1.len() && !erased_pos(k1, kids1.len(), i) implies s_erase(#[trigger] kids1[i]) == s_erase(kids2[i]) by {
                        assert(i == 0 || i == 1 || i == 2);
                    }
                }
            }
        }
    }
}

// the children of a term whose free variables are below c have theirs below c (+ the binders crossed)
pub proof fn lemma_term_kids_closed<'a>(t: Term<'a>, c: nat)
    requires s_cl(view(t), c), !(t.variant is Unifier)
    ensures
        match t.variant {
            Variable(_, i) => i < c,
            Lambda(_, _, x, y) | Pi(_, _, x, y) => s_cl(view(*x), c) && s_cl(view(*y), c + 1),
            Application(x, y) | Sum(x, y) | Difference(x, y) | Product(x, y) | Quotient(x, y)
            | LessThan(x, y) | LessThanOrEqualTo(x, y) | EqualTo(x, y) | GreaterThan(x, y) | GreaterThanOrEqualTo(x, y)
                => s_cl(view(*x), c) && s_cl(view(*y), c),
            Negation(x) => s_cl(view(*x), c),
            If(x, y, z) => s_cl(view(*x), c) && s_cl(view(*y), c) && s_cl(view(*z), c),
            Let(defs, body) => s_cl(view(*body), c + defs@.len()) && forall|j: int| 0 <= j < defs@.len() ==> s_cl(view(*(#[trigger] defs@[j]).1), c + defs@.len()) && s_cl(view(*defs@[j].2), c + defs@.len()),
            _ => true,
        },
{
    reveal(s_cl);
    broadcast use group_fv;
    match t.variant {
        Variable(_, i) => {
            if i >= c { assert(s_has_fv(view(t), c, (i - c) as nat)); }
        }
        Let(defs, body) => {
            lemma_let_kids(t, defs, body);
            let kids = kids_of(t);
            let m = defs@.len();
            lemma_closed_kids(Kind::Let, kids, c);
            assert(s_cl(kids[2 * m as int], c + binds(Kind::Let, kids.len(), 2 * m as int)));
            assert forall|j: int| 0 <= j < defs@.len() implies s_cl(view(*(#[trigger] defs@[j]).1), c + m) && s_cl(view(*defs@[j].2), c + m) by {
                assert(s_cl(kids[j], c + binds(Kind::Let, kids.len(), j)));
                assert(s_cl(kids[j + m], c + binds(Kind::Let, kids.len(), j + m)));
            }
        }
        _ => {
            let k = kind_of(t.variant);
            let kids = kids_of(t);
            assert(view(t) == STerm::Node(k, kids));
            lemma_closed_kids(k, kids, c);
            if kids.len() >= 1 { assert(s_cl(kids[0], c + binds(k, kids.len(), 0))); }
            if kids.len() >= 2 { assert(s_cl(kids[1], c + binds(k, kids.len(), 1))); }
            if kids.len() >= 3 { assert(s_cl(kids[2], c + binds(k, kids.len(), 2))); }
        }
    }
}

// whatever m reduces to, t reduces to (used before a tail call whose result is not named)
pub proof fn lemma_rr_trans_all(g: GCtx, t: STerm, m: STerm)
    requires s_rr(g, t, m)
    ensures forall|u: STerm| #[trigger] s_rr(g, m, u) ==> s_rr(g, t, u)
{
    assert forall|u: STerm| #[trigger] s_rr(g, m, u) implies s_rr(g, t, u) by { lemma_rr_trans(g, t, m, u); }
}

// the arithmetic / comparison arms of the normaliser: both operands are normalised, then the primitive fires if it can
pub proof fn lemma_norm_binary(g: GCtx, k: Kind, a: STerm, b: STerm, a2: STerm, b2: STerm, l: nat)
    requires is_binary(k), k != Kind::App, s_rr(g, a, a2), s_rr(g, b, b2), s_whnf(g, a2), s_whnf(g, b2),
        s_ok(a2, 0, BOUND() as nat), s_ok(b2, 0, BOUND() as nat), s_cl(a2, l), s_cl(b2, l)
    ensures
        s_prim(k, a2, b2) is Some ==> s_ok(s_prim(k, a2, b2).unwrap(), 0, BOUND() as nat) && s_cl(s_prim(k, a2, b2).unwrap(), l),
        s_ok(STerm::Node(k, s2(a2, b2)), 0, BOUND() as nat) && s_cl(STerm::Node(k, s2(a2, b2)), l),
        s_prim(k, a2, b2) is Some ==> s_rr(g, STerm::Node(k, s2(a, b)), s_prim(k, a2, b2).unwrap()) && s_whnf(g, s_prim(k, a2, b2).unwrap()),
        s_prim(k, a2, b2) is None ==> s_rr(g, STerm::Node(k, s2(a, b)), STerm::Node(k, s2(a2, b2))) && s_whnf(g, STerm::Node(k, s2(a2, b2))),
{
    reveal(s_cl);
    broadcast use {group_ok, group_fv};
    assert(binds(k, 2, 0) == 0 && binds(k, 2, 1) == 0);
    lemma_rr_cong2(g, k, a, b, a2, b2);
    lemma_whnf2(g, k, a2, b2);
    if s_prim(k, a2, b2) is Some {
        lemma_whnf_value(g, s_prim(k, a2, b2).unwrap());
        lemma_root_prim(g, k, a2, b2, s_prim(k, a2, b2).unwrap());
        lemma_rr_trans(g, STerm::Node(k, s2(a, b)), STerm::Node(k, s2(a2, b2)), s_prim(k, a2, b2).unwrap());
    }
}

pub proof fn lemma_norm_neg(g: GCtx, a: STerm, a2: STerm, l: nat)
    requires s_rr(g, a, a2), s_whnf(g, a2), s_ok(a2, 0, BOUND() as nat), s_cl(a2, l)
    ensures
        lit_of(a2) is Some ==> s_ok(s_lit(-lit_of(a2).unwrap()), 0, BOUND() as nat) && s_cl(s_lit(-lit_of(a2).unwrap()), l),
        s_ok(STerm::Node(Kind::Neg, s1(a2)), 0, BOUND() as nat) && s_cl(STerm::Node(Kind::Neg, s1(a2)), l),
        lit_of(a2) is Some ==> s_rr(g, STerm::Node(Kind::Neg, s1(a)), s_lit(-lit_of(a2).unwrap())) && s_whnf(g, s_lit(-lit_of(a2).unwrap())),
        lit_of(a2) is None ==> s_rr(g, STerm::Node(Kind::Neg, s1(a)), STerm::Node(Kind::Neg, s1(a2))) && s_whnf(g, STerm::Node(Kind::Neg, s1(a2))),
{
    reveal(s_cl);
    broadcast use {group_ok, group_fv};
    lemma_rr_cong1(g, Kind::Neg, a, a2);
    lemma_whnf1(g, a2);
    if lit_of(a2) is Some {
        lemma_whnf_value(g, s_lit(-lit_of(a2).unwrap()));
        lemma_root_neg(g, a2, lit_of(a2).unwrap());
        lemma_rr_trans(g, STerm::Node(Kind::Neg, s1(a)), STerm::Node(Kind::Neg, s1(a2)), s_lit(-lit_of(a2).unwrap()));
    }
}

pub proof fn lemma_norm_if(g: GCtx, c: STerm, a: STerm, b: STerm, c2: STerm, l: nat)
    requires s_rr(g, c, c2), s_whnf(g, c2),
        s_ok(c2, 0, BOUND() as nat), s_ok(a, 0, BOUND() as nat), s_ok(b, 0, BOUND() as nat), s_cl(c2, l), s_cl(a, l), s_cl(b, l)
    ensures
        s_ok(STerm::Node(Kind::If, s3(c2, a, b)), 0, BOUND() as nat) && s_cl(STerm::Node(Kind::If, s3(c2, a, b)), l),
        c2 is Node && c2->Node_0 == Kind::True ==> forall|u: STerm| #[trigger] s_rr(g, a, u) ==> s_rr(g, STerm::Node(Kind::If, s3(c, a, b)), u),
        c2 is Node && c2->Node_0 == Kind::False ==> forall|u: STerm| #[trigger] s_rr(g, b, u) ==> s_rr(g, STerm::Node(Kind::If, s3(c, a, b)), u),
        !(c2 is Node && (c2->Node_0 == Kind::True || c2->Node_0 == Kind::False)) ==>
            s_rr(g, STerm::Node(Kind::If, s3(c, a, b)), STerm::Node(Kind::If, s3(c2, a, b))) && s_whnf(g, STerm::Node(Kind::If, s3(c2, a, b))),
{
    reveal(s_cl);
    broadcast use {group_ok, group_fv};
    let t = STerm::Node(Kind::If, s3(c, a, b));
    let t2 = STerm::Node(Kind::If, s3(c2, a, b));
    lemma_rr_refl(g, a);
    lemma_rr_refl(g, b);
    lemma_rr_cong3(g, Kind::If, c, a, b, c2, a, b);
    lemma_whnf3(g, c2, a, b);
    lemma_root_if(g, c2, a, b);
    if c2 is Node && c2->Node_0 == Kind::True {
        lemma_rr_trans(g, t, t2, a);
        lemma_rr_trans_all(g, t, a);
    }
    if c2 is Node && c2->Node_0 == Kind::False {
        lemma_rr_trans(g, t, t2, b);
        lemma_rr_trans_all(g, t, b);
    }
}

// the application arm: the head is normalised; a function is applied to the UNEVALUATED argument
pub proof fn lemma_norm_app(g: GCtx, f: STerm, a: STerm, f2: STerm, r: STerm, l: nat)
    requires s_rr(g, f, f2), s_whnf(g, f2), s_ok(f2, 0, BOUND() as nat), s_ok(a, 0, BOUND() as nat), s_cl(f2, l), s_cl(a, l)
    ensures
        s_ok(STerm::Node(Kind::App, s2(f2, a)), 0, BOUND() as nat) && s_cl(STerm::Node(Kind::App, s2(f2, a)), l),
        s_prim(Kind::App, f2, a) == Some(r) ==> forall|u: STerm| #[trigger] s_rr(g, r, u) ==> s_rr(g, STerm::Node(Kind::App, s2(f, a)), u),
        s_prim(Kind::App, f2, a) is None ==> s_rr(g, STerm::Node(Kind::App, s2(f, a)), STerm::Node(Kind::App, s2(f2, a))) && s_whnf(g, STerm::Node(Kind::App, s2(f2, a))),
{
    reveal(s_cl);
    broadcast use {group_ok, group_fv};
    let t = STerm::Node(Kind::App, s2(f, a));
    let t2 = STerm::Node(Kind::App, s2(f2, a));
    lemma_rr_refl(g, a);
    lemma_rr_cong2(g, Kind::App, f, a, f2, a);
    lemma_whnf2(g, Kind::App, f2, a);
    if s_prim(Kind::App, f2, a) == Some(r) {
        lemma_root_prim(g, Kind::App, f2, a, r);
        lemma_rr_trans(g, t, t2, r);
        lemma_rr_trans_all(g, t, r);
    }
}

// raising a term closed at cc by k gives a term closed at cc + k
pub proof fn lemma_raise_closed_n(t: STerm, cc: nat, k: nat)
    requires s_hole_free(t), s_cl(t, cc),
    ensures s_shift(t, 0, k as int) == Some(s_raise(t, k)), s_hole_free(s_raise(t, k)), s_cl(s_raise(t, k), cc + k),
{
    reveal(s_cl);
    law_shift_up_total(t, 0, k);
    law_shift_some_hole_free(t, 0, k as int);
    let r = s_raise(t, k);
    assert(r == s_shift(t, 0, k as int).unwrap());
    assert forall|x: nat| !#[trigger] s_has_fv(r, cc + k, x) by {
        law_fv_cut(r, 0, cc + k, x);
        law_fv_shift(t, 0, 0, k, x + cc + k);
        law_fv_cut(t, 0, cc, x);
        assert(((x + cc + k) - k) as nat == x + cc);
    }
}

// the variable arm of the normaliser: what the context entry of variable `index` says
pub proof fn lemma_delta_facts<'a>(ctx: Seq<Option<(Rc<Term<'a>>, usize)>>, index: nat)
    requires ctx_ok(ctx), index < ctx.len(), ctx.len() < HB()
    ensures
        ctx[ctx.len() - 1 - index] is None ==> s_delta(ctx_view(ctx), index) is None,
        ctx[ctx.len() - 1 - index] is Some ==> ({
            let d = view(*ctx[ctx.len() - 1 - index]->Some_0.0);
            let off = ctx[ctx.len() - 1 - index]->Some_0.1;
            let amount = (index + 1 - off) as nat;
            &&& off <= index + 1
            &&& s_ok(d, 0, BOUND() as nat)
            &&& s_shift(d, 0, amount as int) == Some(s_raise(d, amount))
            &&& s_delta(ctx_view(ctx), index) == Some(s_raise(d, amount))
            &&& s_ok(s_raise(d, amount), 0, BOUND() as nat)
            &&& s_cl(s_raise(d, amount), ctx.len())
            &&& forall|u: STerm| #[trigger] s_rr(ctx_view(ctx), s_raise(d, amount), u) ==> s_rr(ctx_view(ctx), STerm::Var(index), u)
        }),
{
    reveal(s_cl);
    reveal(ctx_view);
    reveal(ctx_ok);
    let g = ctx_view(ctx);
    let p = ctx.len() - 1 - index;
    assert(g.len() == ctx.len());
    assert(g[p] == match ctx[p] { Some((d, off)) => Some((view(*d), off as nat)), None => None::<(STerm, nat)> });
    if ctx[p] is Some {
        let d = vr(&ctx[p]->Some_0.0);
        let off = ctx[p]->Some_0.1;
        let amount = (index + 1 - off) as nat;
        assert(p + off <= ctx.len());
        lemma_ok_weaken(d, 0, HB() as nat, 0, BOUND() as nat);
        lemma_ok_hole_free(d, 0, HB() as nat);
        lemma_raise_closed_n(d, (p + off) as nat, amount);
        lemma_ok_shift(d, 0, HB() as nat, 0, amount);
        lemma_ok_weaken(s_raise(d, amount), 0, (HB() + amount) as nat, 0, BOUND() as nat);
        assert((p + off + amount) as nat == ctx.len());
        lemma_root_delta(g, index, s_raise(d, amount));
        lemma_rr_trans_all(g, STerm::Var(index), s_raise(d, amount));
    }
}

// pushing a plain binder onto the real context
pub proof fn lemma_ctx_push_none<'a>(ctx: Seq<Option<(Rc<Term<'a>>, usize)>>)
    requires ctx_ok(ctx)
    ensures
        ctx_ok(ctx.push(None)),
        ctx_view(ctx.push(None)) == g_ext(ctx_view(ctx), 1),
        ctx.push(None).drop_last() == ctx,
{
    reveal(ctx_view);
    reveal(ctx_ok);
    let c2 = ctx.push(None);
    assert forall|p: int| 0 <= p < c2.len() implies match #[trigger] c2[p] {
        Some((d, off)) => p + off <= c2.len() && s_ok(view(*d), 0, HB() as nat) && s_cl(view(*d), (p + off) as nat),
        None => true,
    } by {
        if p < ctx.len() { assert(c2[p] == ctx[p]); }
    }
    assert(ctx_view(c2) =~= g_ext(ctx_view(ctx), 1));
    assert(c2.drop_last() =~= ctx);
}

// beta reduction keeps the overflow guard (with room) and never frees a variable
pub proof fn lemma_beta_facts(body: STerm, arg: STerm, l: nat)
    requires s_ok(body, 0, HB() as nat), s_ok(arg, 0, HB() as nat), s_cl(body, l + 1), s_cl(arg, l)
    ensures
        s_ok(body, 0, BOUND() as nat), s_ok(arg, 0, BOUND() as nat),
        s_ok(s_open(body, 0, arg, 0), 0, BOUND() as nat),
        s_cl(s_open(body, 0, arg, 0), l),
{
    reveal(s_cl);
    lemma_ok_weaken(body, 0, HB() as nat, 0, BOUND() as nat);
    lemma_ok_weaken(arg, 0, HB() as nat, 0, BOUND() as nat);
    lemma_ok_open(body, 0, HB() as nat, 0, arg, HB() as nat, 0, 0);
    lemma_ok_weaken(s_open(body, 0, arg, 0), 0, (3 * HB()) as nat, 0, BOUND() as nat);
    lemma_ok_hole_free(body, 0, HB() as nat);
    lemma_ok_hole_free(arg, 0, HB() as nat);
    lemma_open_closed(body, 0, arg, l);
}

// ---- the definition-group arm of the normaliser --------------------------------------------------------
// the children of what is left of a group after its first i definitions have been substituted
pub open spec fn group_kids<'a>(defs: Seq<(&'a str, Rc<Term<'a>>, Rc<Term<'a>>)>, i: int, b: STerm) -> Seq<STerm> {
    let m = defs.len() - i;
    Seq::new((2 * m + 1) as nat, |k: int|
        if k < m { view(*defs[i + k].1) } else if k < 2 * m { view(*defs[i + k - m].2) } else { b })
}

// everything the unfolding of the first definition of a group needs and yields (preconditions of the real
// shift/open calls, overflow guard and closedness of the results)
pub proof fn lemma_unfold_facts(a: STerm, d: STerm, m: nat, l: nat)
    requires
        m >= 1, m < HB(), l < HB(),
        s_ok(a, 0, HB() as nat), s_ok(d, 0, HB() as nat),
        s_cl(a, l + m), s_cl(d, l + m),
    ensures
        ({
            let v = STerm::Var(0);
            let a_s = s_raise(a, 1);
            let d_s = s_raise(d, 1);
            let a1 = s_open(a_s, m, v, 0);
            let d1 = s_open(d_s, m, v, 0);
            let w = STerm::Node(Kind::Let, s3(a1, d1, v));
            let u = s_open(d, (m - 1) as nat, w, 0);
            &&& s_ok(a, 0, BOUND() as nat) && s_ok(d, 0, BOUND() as nat)
            &&& s_shift(a, 0, 1) == Some(a_s) && s_shift(d, 0, 1) == Some(d_s)
            &&& s_ok(a_s, m, BOUND() as nat) && s_ok(a_s, 0, BOUND() as nat)
            &&& s_ok(d_s, m, BOUND() as nat) && s_ok(d_s, 0, BOUND() as nat)
            &&& s_ok(v, 0, BOUND() as nat)
            &&& s_ok(w, 0, BOUND() as nat) && s_cl(w, (l + m - 1) as nat)
            &&& s_ok(d, (m - 1) as nat, BOUND() as nat)
            &&& s_ok(u, 0, BOUND() as nat) && s_cl(u, (l + m - 1) as nat)
        }),
{
    reveal(s_cl);
    let hb = HB() as nat;
    let bb = BOUND() as nat;
    let v = STerm::Var(0);
    let cm = l + m;
    let c1 = (cm - 1) as nat;
    lemma_ok_weaken(a, 0, hb, 0, bb);
    lemma_ok_weaken(d, 0, hb, 0, bb);
    lemma_ok_shift(a, 0, hb, 0, 1);
    lemma_ok_shift(d, 0, hb, 0, 1);
    let a_s = s_raise(a, 1);
    let d_s = s_raise(d, 1);
    lemma_ok_lift(a_s, 0, hb + 1, m);
    lemma_ok_lift(d_s, 0, hb + 1, m);
    lemma_ok_weaken(a_s, m, hb + 1 + m, m, bb);
    lemma_ok_weaken(d_s, m, hb + 1 + m, m, bb);
    lemma_ok_weaken(a_s, 0, hb + 1, 0, bb);
    lemma_ok_weaken(d_s, 0, hb + 1, 0, bb);
    lemma_ok_var(0, 0, 1);
    lemma_ok_var(0, 0, bb);
    lemma_ok_var(0, 1, bb);
    lemma_ok_open(a_s, 0, hb + 1, m, v, 1, 0, 0);
    lemma_ok_open(d_s, 0, hb + 1, m, v, 1, 0, 0);
    let a1 = s_open(a_s, m, v, 0);
    let d1 = s_open(d_s, m, v, 0);
    let b1 = 2 * (hb + 1) + 1;
    lemma_ok_lift(a1, 0, b1, 1);
    lemma_ok_lift(d1, 0, b1, 1);
    lemma_ok_weaken(a1, 1, b1 + 1, 1, bb);
    lemma_ok_weaken(d1, 1, b1 + 1, 1, bb);
    lemma_ok3(Kind::Let, a1, d1, v, 0, bb);
    let w = STerm::Node(Kind::Let, s3(a1, d1, v));
    // closedness (same argument as lemma_let_subst_closed)
    lemma_ok_hole_free(a, 0, hb);
    lemma_ok_hole_free(d, 0, hb);
    lemma_var0_closed(cm);
    lemma_raise_closed(a, cm);
    lemma_raise_closed(d, cm);
    lemma_open_closed(a_s, m, v, cm);
    lemma_open_closed(d_s, m, v, cm);
    lemma_open_hole_free(a_s, m, v, 0);
    lemma_open_hole_free(d_s, m, v, 0);
    let wk = s3(a1, d1, v);
    lemma_hole_free_kids(Kind::Let, wk);
    lemma_closed_kids(Kind::Let, wk, c1);
    assert forall|i: int| 0 <= i < wk.len() implies s_hole_free(#[trigger] wk[i]) && s_cl(wk[i], c1 + binds(Kind::Let, wk.len(), i)) by {
        assert(binds(Kind::Let, 3, i) == 1);
        assert(i == 0 || i == 1 || i == 2);
    }
    // u = d[x_0 := w]
    lemma_ok_lift(d, 0, hb, (m - 1) as nat);
    lemma_ok_weaken(d, (m - 1) as nat, hb + (m - 1) as nat, (m - 1) as nat, bb);
    // the bound of w, computed with room: kids at cutoff 1 below b1 + 1
    lemma_ok3(Kind::Let, a1, d1, v, 0, b1 + 1);
    lemma_ok_var(0, 1, b1 + 1);
    lemma_ok_open(d, 0, hb, (m - 1) as nat, w, b1 + 1, 0, 0);
    let u = s_open(d, (m - 1) as nat, w, 0);
    lemma_ok_weaken(u, 0, 2 * hb + b1 + 1, 0, bb);
    lemma_open_closed(d, (m - 1) as nat, w, c1);
}

// substituting the unfolded first definition into one remaining piece of the group
pub proof fn lemma_subst_piece(p: STerm, m: nat, u: STerm, l: nat)
    requires
        m >= 1, m < HB(),
        s_ok(p, 0, HB() as nat), s_cl(p, l + m),
        s_ok(u, 0, HB() as nat), s_cl(u, (l + m - 1) as nat),
    ensures
        s_ok(p, (m - 1) as nat, BOUND() as nat), s_ok(p, 0, BOUND() as nat), s_ok(u, 0, BOUND() as nat),
        s_ok(s_open(p, (m - 1) as nat, u, 0), 0, BOUND() as nat),
        s_cl(s_open(p, (m - 1) as nat, u, 0), (l + m - 1) as nat),
{
    reveal(s_cl);
    let hb = HB() as nat;
    let bb = BOUND() as nat;
    lemma_ok_weaken(p, 0, hb, 0, bb);
    lemma_ok_weaken(u, 0, hb, 0, bb);
    lemma_ok_lift(p, 0, hb, (m - 1) as nat);
    lemma_ok_weaken(p, (m - 1) as nat, hb + (m - 1) as nat, (m - 1) as nat, bb);
    lemma_ok_open(p, 0, hb, (m - 1) as nat, u, hb, 0, 0);
    lemma_ok_weaken(s_open(p, (m - 1) as nat, u, 0), 0, 3 * hb, 0, bb);
    lemma_ok_hole_free(p, 0, hb);
    lemma_ok_hole_free(u, 0, hb);
    lemma_open_closed(p, (m - 1) as nat, u, (l + m - 1) as nat);
}

// one round of the normaliser's loop is one unfolding step of the reference relation
pub proof fn lemma_group_step(kids: Seq<STerm>, kids2: Seq<STerm>, m: nat)
    requires
        m >= 1, kids.len() == 2 * m + 1, kids2.len() == 2 * m - 1,
        forall|j: int| 0 <= j < 2 * m - 1 ==> #[trigger] kids2[j] == s_open(kids[if j < m - 1 { j + 1 } else { j + 2 }], (m - 1) as nat, s_unfolded(kids, m), 0),
    ensures
        forall|g: GCtx| #[trigger] s_rr(g, STerm::Node(Kind::Let, kids), STerm::Node(Kind::Let, kids2)),
{
    assert(((kids.len() - 1) / 2) as nat == m);
    assert(s_let_subst(kids, m)->Node_1 =~= kids2);
    assert(s_let_subst(kids, m) == STerm::Node(Kind::Let, kids2));
    assert forall|g: GCtx| #[trigger] s_rr(g, STerm::Node(Kind::Let, kids), STerm::Node(Kind::Let, kids2)) by { lemma_root_let(g, kids); }
}

// every annotation and definition of defs[from..to) is well formed (small bound) and closed at c
#[verifier::opaque]
pub open spec fn pieces_ok<'a>(defs: Seq<(&'a str, Rc<Term<'a>>, Rc<Term<'a>>)>, from: int, to: int, c: nat) -> bool {
    forall|q: int| from <= q < to ==> {
        &&& s_ok(view(*(#[trigger] defs[q]).1), 0, HB() as nat)
        &&& s_ok(view(*defs[q].2), 0, HB() as nat)
        &&& s_cl(view(*defs[q].1), c)
        &&& s_cl(view(*defs[q].2), c)
    }
}

// defs[from..to) are the corresponding elements of pre with x := u substituted at index j
#[verifier::opaque]
pub open spec fn pieces_subst<'a>(defs: Seq<(&'a str, Rc<Term<'a>>, Rc<Term<'a>>)>, pre: Seq<(&'a str, Rc<Term<'a>>, Rc<Term<'a>>)>, from: int, to: int, j: nat, u: STerm) -> bool {
    forall|q: int| from <= q < to ==> {
        &&& view(*(#[trigger] defs[q]).1) == s_open(view(*pre[q].1), j, u, 0)
        &&& view(*defs[q].2) == s_open(view(*pre[q].2), j, u, 0)
    }
}

// ---- the conversion check: what suffices, constructor by constructor, for two weak-head normal forms to be
// convertible --------------------------------------------------------------------------------------------
pub open spec fn conv_by_case<'a>(g: GCtx, w1: Term<'a>, w2: Term<'a>) -> bool {
    match (w1.variant, w2.variant) {
        (Type, Type) | (Integer, Integer) | (Boolean, Boolean) | (True, True) | (False, False) => true,
        (Variable(_, i1), Variable(_, i2)) => i1 == i2,
        (Lambda(_, m1, _, b1), Lambda(_, m2, _, b2)) => m1 == m2 && s_conv(g_ext(g, 1), view(*b1), view(*b2)),
        (Pi(_, m1, d1, c1), Pi(_, m2, d2, c2)) => m1 == m2 && s_conv(g, view(*d1), view(*d2)) && s_conv(g_ext(g, 1), view(*c1), view(*c2)),
        (Application(a1, b1), Application(a2, b2)) | (Sum(a1, b1), Sum(a2, b2)) | (Difference(a1, b1), Difference(a2, b2))
        | (Product(a1, b1), Product(a2, b2)) | (Quotient(a1, b1), Quotient(a2, b2)) | (LessThan(a1, b1), LessThan(a2, b2))
        | (LessThanOrEqualTo(a1, b1), LessThanOrEqualTo(a2, b2)) | (EqualTo(a1, b1), EqualTo(a2, b2))
        | (GreaterThan(a1, b1), GreaterThan(a2, b2)) | (GreaterThanOrEqualTo(a1, b1), GreaterThanOrEqualTo(a2, b2))
            => s_conv(g, view(*a1), view(*a2)) && s_conv(g, view(*b1), view(*b2)),
        (IntegerLiteral(x1), IntegerLiteral(x2)) => bigint_val(x1) == bigint_val(x2),
        (Negation(a1), Negation(a2)) => s_conv(g, view(*a1), view(*a2)),
        (If(a1, b1, c1), If(a2, b2, c2)) => s_conv(g, view(*a1), view(*a2)) && s_conv(g, view(*b1), view(*b2)) && s_conv(g, view(*c1), view(*c2)),
        _ => false,
    }
}

pub proof fn lemma_conv_by_case<'a>(g: GCtx, w1: Term<'a>, w2: Term<'a>, v1: STerm, v2: STerm)
    requires
        s_rr(g, v1, view(w1)), s_rr(g, v2, view(w2)),
        !(w1.variant is Unifier), !(w2.variant is Unifier),
        conv_by_case(g, w1, w2),
    ensures
        s_conv(g, v1, v2),
{
    let k1 = kind_of(w1.variant);
    let k2 = kind_of(w2.variant);
    match (w1.variant, w2.variant) {
        (Variable(_, i1), Variable(_, i2)) => {
            lemma_conv_erase_eq(g, view(w1), view(w2));
        }
        (Lambda(_, m1, d1, b1), Lambda(_, m2, d2, b2)) => {
            lemma_conv_node2(g, k1, vr(&d1), vr(&b1), vr(&d2), vr(&b2));
        }
        (Pi(_, m1, d1, c1), Pi(_, m2, d2, c2)) => {
            lemma_conv_node2(g, k1, vr(&d1), vr(&c1), vr(&d2), vr(&c2));
        }
        (Application(a1, b1), Application(a2, b2)) | (Sum(a1, b1), Sum(a2, b2)) | (Difference(a1, b1), Difference(a2, b2))
        | (Product(a1, b1), Product(a2, b2)) | (Quotient(a1, b1), Quotient(a2, b2)) | (LessThan(a1, b1), LessThan(a2, b2))
        | (LessThanOrEqualTo(a1, b1), LessThanOrEqualTo(a2, b2)) | (EqualTo(a1, b1), EqualTo(a2, b2))
        | (GreaterThan(a1, b1), GreaterThan(a2, b2)) | (GreaterThanOrEqualTo(a1, b1), GreaterThanOrEqualTo(a2, b2)) => {
            assert(k1 == k2);
            assert(binds(k1, 2, 0) == 0 && binds(k1, 2, 1) == 0);
            lemma_conv_node2(g, k1, vr(&a1), vr(&b1), vr(&a2), vr(&b2));
        }
        (Negation(a1), Negation(a2)) => {
            lemma_conv_node1(g, k1, vr(&a1), vr(&a2));
        }
        (If(a1, b1, c1), If(a2, b2, c2)) => {
            lemma_conv_node3(g, k1, vr(&a1), vr(&b1), vr(&c1), vr(&a2), vr(&b2), vr(&c2));
        }
        _ => {
            // the leaves: equal views
            assert(view(w1) == view(w2)) by { assert(kids_of(w1) =~= kids_of(w2)); }
            lemma_conv_erase_eq(g, view(w1), view(w2));
        }
    }
    lemma_conv_pre(g, v1, view(w1), v2, view(w2));
}
