// ---- helper lemmas for the exec proofs of unit U8 (syntactically_equal, normalize_weak_head, unify) -------

// the children of a well-formed term are well formed at cutoff 0 (binders only make the cutoff larger)
pub proof fn lemma_term_kids_ok<'a>(t: Term<'a>, b: nat)
    requires s_ok(view(t), 0, b)
    ensures
        match t.variant {
            Lambda(_, _, x, y) | Pi(_, _, x, y) | Application(x, y) | Sum(x, y) | Difference(x, y) | Product(x, y) | Quotient(x, y)
            | LessThan(x, y) | LessThanOrEqualTo(x, y) | EqualTo(x, y) | GreaterThan(x, y) | GreaterThanOrEqualTo(x, y)
                => s_ok(view(*x), 0, b) && s_ok(view(*y), 0, b),
            Negation(x) => s_ok(view(*x), 0, b),
            If(x, y, z) => s_ok(view(*x), 0, b) && s_ok(view(*y), 0, b) && s_ok(view(*z), 0, b),
            Let(defs, body) => s_ok(view(*body), 0, b) && forall|j: int| 0 <= j < defs@.len() ==> s_ok(view(*(#[trigger] defs@[j]).1), 0, b) && s_ok(view(*defs@[j].2), 0, b),
            _ => true,
        },
{
    broadcast use group_ok;
    match t.variant {
        Lambda(_, _, x, y) | Pi(_, _, x, y) => {
            lemma_ok_weaken(vr(&y), 1, b, 0, b);
        }
        Let(defs, body) => {
            lemma_ok_let(t, defs, body, 0, b);
            lemma_ok_weaken(vr(&body), defs@.len(), b, 0, b);
            assert forall|j: int| 0 <= j < defs@.len() implies s_ok(view(*(#[trigger] defs@[j]).1), 0, b) && s_ok(view(*defs@[j].2), 0, b) by {
                lemma_ok_weaken(view(*defs@[j].1), defs@.len(), b, 0, b);
                lemma_ok_weaken(view(*defs@[j].2), defs@.len(), b, 0, b);
            }
        }
        _ => {}
    }
}

// When do two terms (neither of them a hole node) have the same erasure?  Constructor by constructor.
pub open spec fn erase_eq_by_case<'a>(t1: Term<'a>, t2: Term<'a>) -> bool {
    match (t1.variant, t2.variant) {
        (Type, Type) | (Integer, Integer) | (Boolean, Boolean) | (True, True) | (False, False) => true,
        (Variable(_, i1), Variable(_, i2)) => i1 == i2,
        (Lambda(_, m1, _, b1), Lambda(_, m2, _, b2)) => m1 == m2 && s_erase(view(*b1)) == s_erase(view(*b2)),
        (Pi(_, m1, d1, c1), Pi(_, m2, d2, c2)) => m1 == m2 && s_erase(view(*d1)) == s_erase(view(*d2)) && s_erase(view(*c1)) == s_erase(view(*c2)),
        (Application(a1, b1), Application(a2, b2)) | (Sum(a1, b1), Sum(a2, b2)) | (Difference(a1, b1), Difference(a2, b2))
        | (Product(a1, b1), Product(a2, b2)) | (Quotient(a1, b1), Quotient(a2, b2)) | (LessThan(a1, b1), LessThan(a2, b2))
        | (LessThanOrEqualTo(a1, b1), LessThanOrEqualTo(a2, b2)) | (EqualTo(a1, b1), EqualTo(a2, b2))
        | (GreaterThan(a1, b1), GreaterThan(a2, b2)) | (GreaterThanOrEqualTo(a1, b1), GreaterThanOrEqualTo(a2, b2))
            => s_erase(view(*a1)) == s_erase(view(*a2)) && s_erase(view(*b1)) == s_erase(view(*b2)),
        (IntegerLiteral(x1), IntegerLiteral(x2)) => bigint_val(x1) == bigint_val(x2),
        (Negation(a1), Negation(a2)) => s_erase(view(*a1)) == s_erase(view(*a2)),
        (If(a1, b1, c1), If(a2, b2, c2)) => s_erase(view(*a1)) == s_erase(view(*a2)) && s_erase(view(*b1)) == s_erase(view(*b2)) && s_erase(view(*c1)) == s_erase(view(*c2)),
        (Let(defs1, b1), Let(defs2, b2)) => defs1@.len() == defs2@.len() && s_erase(view(*b1)) == s_erase(view(*b2))
            && forall|j: int| 0 <= j < defs1@.len() ==> s_erase(view(*(#[trigger] defs1@[j]).2)) == s_erase(view(*defs2@[j].2)),
        _ => false,
    }
}

pub proof fn lemma_erase_eq_terms<'a>(t1: Term<'a>, t2: Term<'a>)
    requires !(t1.variant is Unifier), !(t2.variant is Unifier)
    ensures (s_erase(view(t1)) == s_erase(view(t2))) == erase_eq_by_case(t1, t2)
{
    let v1 = view(t1);
    let v2 = view(t2);
    lemma_erase_shapes(v1, v2);
    lemma_erase_shapes(v2, v1);
    if t1.variant is Variable || t2.variant is Variable {
        if t1.variant is Variable { lemma_erase_var(t1.variant->Variable_1 as nat); }
        if t2.variant is Variable { lemma_erase_var(t2.variant->Variable_1 as nat); }
    } else {
        let k1 = kind_of(t1.variant);
        let k2 = kind_of(t2.variant);
        let kids1 = kids_of(t1);
        let kids2 = kids_of(t2);
        assert(v1 == STerm::Node(k1, kids1));
        assert(v2 == STerm::Node(k2, kids2));
        lemma_erase_eq(k1, kids1, k2, kids2);
        let lhs = k1 == k2 && kids1.len() == kids2.len()
            && forall|i: int| 0 <= i < kids1.len() && !erased_pos(k1, kids1.len(), i) ==> s_erase(#[trigger] kids1[i]) == s_erase(kids2[i]);
        match (t1.variant, t2.variant) {
            (Let(defs1, b1), Let(defs2, b2)) => {
                lemma_let_kids(t1, defs1, b1);
                lemma_let_kids(t2, defs2, b2);
                let m = defs1@.len() as int;
                if lhs {
                    assert(kids1.len() == 2 * m + 1);
                    assert(defs1@.len() == defs2@.len());
                    assert(s_erase(kids1[2 * m]) == s_erase(kids2[2 * m]));
                    assert forall|j: int| 0 <= j < m implies s_erase(view(*(#[trigger] defs1@[j]).2)) == s_erase(view(*defs2@[j].2)) by {
                        assert(s_erase(kids1[j + m]) == s_erase(kids2[j + m]));
                    }
                }
                if erase_eq_by_case(t1, t2) {
                    assert forall|i: int| 0 <= i < kids1.len() && !erased_pos(k1, kids1.len(), i) implies s_erase(#[trigger] kids1[i]) == s_erase(kids2[i]) by {
                        if i < 2 * m {
                            let j = i - m;
                            assert(kids1[j + m] == view(*defs1@[j].2));
                            assert(kids2[j + m] == view(*defs2@[j].2));
                        }
                    }
                }
            }
            _ => {
                if lhs {
                    if kids1.len() >= 1 && !erased_pos(k1, kids1.len(), 0) { assert(s_erase(kids1[0]) == s_erase(kids2[0])); }
                    if kids1.len() >= 2 { assert(s_erase(kids1[1]) == s_erase(kids2[1])); }
                    if kids1.len() >= 3 { assert(s_erase(kids1[2]) == s_erase(kids2[2])); }
                }
                if erase_eq_by_case(t1, t2) {
                    assert forall|i: int| 0 <= i < kids1.len() && !erased_pos(k1, kids1.len(), i) implies s_erase(#[trigger] kids1[i]) == s_erase(kids2[i]) by {
                        assert(i == 0 || i == 1 || i == 2);
                    }
                }
            }
        }
    }
}
