// ---- C06: the reference REDUCTION RELATION and CONVERTIBILITY on the abstract view (hand-written from the
// statement of C06 and from the rules of eval_spec.rs; see DESIGN.md 18) -----------------------------
//
// s_red is the compatible closure of the SAME root rules the evaluator's reference semantics s_step uses
// (beta, definition-group unfolding s_let_subst, exact arithmetic, comparisons, conditionals), without the
// call-by-value side conditions: an argument or a first definition need not be a value, and a redex may be
// contracted anywhere.  lemma_step_is_red PROVES that every step of s_step is a step of s_red, so the
// evaluator (contract of `evaluate`) and the normaliser (contract of `normalize_weak_head`) are both
// measured against one and the same set of rules.

// The abstract definitions context: entry p (counted from the outermost binder) is None for a plain variable, or
// Some((d, off)) for a let-bound one: d is its definition, valid in the context prefix of length p + off.  The variable
// with index i of a term under a context of length L is entry L - 1 - i.  (This is how the type checker hands
// definition groups to the conversion check: it pushes (definition_j, n - j) for the n definitions of a group.)
pub type GCtx = Seq<Option<(STerm, nat)>>;

pub open spec fn g_empty() -> GCtx { Seq::empty() }

// the context extended by b plain binders
pub open spec fn g_ext(g: GCtx, b: nat) -> GCtx {
    if b == 0 { g } else { g + Seq::new(b, |i: int| None::<(STerm, nat)>) }
}

// delta: what variable i unfolds to under g, if it is let-bound: its definition raised to the current depth
pub open spec fn s_delta(g: GCtx, i: nat) -> Option<STerm> {
    if i < g.len() {
        match g[g.len() - 1 - i] {
            Some((d, off)) => if off <= i + 1 { Some(s_raise(d, (i + 1 - off) as nat)) } else { None },
            None => None,
        }
    } else { None }
}

// The root rules.
pub open spec fn s_red_root(g: GCtx, t: STerm, u: STerm) -> bool {
    match t {
        STerm::Var(i) => s_delta(g, i) == Some(u),
        STerm::Node(k, kids) =>
            if is_binary(k) && kids.len() == 2 {
                // beta (any argument) and the primitives on two literals; Quotient by zero is no redex
                s_prim(k, kids[0], kids[1]) == Some(u)
            } else if k == Kind::Neg && kids.len() == 1 {
                match lit_of(kids[0]) { Some(x) => u == s_lit(-x), None => false }
            } else if k == Kind::If && kids.len() == 3 {
                match kids[0] {
                    STerm::Node(Kind::True, _) => u == kids[1],
                    STerm::Node(Kind::False, _) => u == kids[2],
                    _ => false,
                }
            } else if k == Kind::Let && kids.len() % 2 == 1 {
                let m = ((kids.len() - 1) / 2) as nat;
                if m == 0 { u == kids[0] } else { u == s_let_subst(kids, m) }
            } else {
                false
            },
        _ => false,
    }
}

// One step: a root rule, or one step inside exactly one child (under the binders of that child, which are plain).
#[verifier::opaque]
pub open spec fn s_red(g: GCtx, t: STerm, u: STerm) -> bool
    decreases t
{
    s_red_root(g, t, u) || match t {
        STerm::Node(k, kids) => exists|i: int, a: STerm| #![trigger kids.update(i, a)]
            0 <= i < kids.len() && s_red(g_ext(g, binds(k, kids.len(), i)), kids[i], a) && u == STerm::Node(k, kids.update(i, a)),
        _ => false,
    }
}

// n steps, and the reflexive-transitive closure.
pub open spec fn s_reds(g: GCtx, t: STerm, u: STerm, n: nat) -> bool
    decreases n
{
    if n == 0 { t == u } else { exists|m: STerm| #![trigger s_red(g, t, m)] s_red(g, t, m) && s_reds(g, m, u, (n - 1) as nat) }
}

#[verifier::opaque]
pub open spec fn s_rr(g: GCtx, t: STerm, u: STerm) -> bool {
    exists|n: nat| s_reds(g, t, u, n)
}

pub proof fn lemma_red_root(g: GCtx, t: STerm, u: STerm)
    requires s_red_root(g, t, u)
    ensures s_red(g, t, u)
{
    reveal(s_red);
}

pub proof fn lemma_red_cong(g: GCtx, k: Kind, kids: Seq<STerm>, i: int, a: STerm)
    requires 0 <= i < kids.len(), s_red(g_ext(g, binds(k, kids.len(), i)), kids[i], a)
    ensures s_red(g, STerm::Node(k, kids), STerm::Node(k, kids.update(i, a)))
{
    reveal(s_red);
    let t = STerm::Node(k, kids);
    assert(t->Node_1 == kids);
    let w = kids.update(i, a);
    assert(0 <= i < kids.len() && s_red(g_ext(g, binds(k, kids.len(), i)), kids[i], a) && STerm::Node(k, w) == STerm::Node(k, kids.update(i, a)));
}

pub proof fn lemma_reds_trans(g: GCtx, t: STerm, m: STerm, u: STerm, n1: nat, n2: nat)
    requires s_reds(g, t, m, n1), s_reds(g, m, u, n2)
    ensures s_reds(g, t, u, n1 + n2)
    decreases n1
{
    if n1 > 0 {
        let x = choose|x: STerm| #![trigger s_red(g, t, x)] s_red(g, t, x) && s_reds(g, x, m, (n1 - 1) as nat);
        lemma_reds_trans(g, x, m, u, (n1 - 1) as nat, n2);
        assert(s_red(g, t, x) && s_reds(g, x, u, (n1 + n2 - 1) as nat));
    }
}

pub proof fn lemma_reds_cong(g: GCtx, k: Kind, kids: Seq<STerm>, i: int, a: STerm, n: nat)
    requires 0 <= i < kids.len(), s_reds(g_ext(g, binds(k, kids.len(), i)), kids[i], a, n)
    ensures s_reds(g, STerm::Node(k, kids), STerm::Node(k, kids.update(i, a)), n)
    decreases n
{
    let gi = g_ext(g, binds(k, kids.len(), i));
    if n == 0 {
        assert(kids.update(i, kids[i]) =~= kids);
    } else {
        let x = choose|x: STerm| #![trigger s_red(gi, kids[i], x)] s_red(gi, kids[i], x) && s_reds(gi, x, a, (n - 1) as nat);
        lemma_red_cong(g, k, kids, i, x);
        let kids1 = kids.update(i, x);
        assert(kids1[i] == x);
        assert(kids1.len() == kids.len());
        lemma_reds_cong(g, k, kids1, i, a, (n - 1) as nat);
        assert(kids1.update(i, a) =~= kids.update(i, a));
        assert(s_red(g, STerm::Node(k, kids), STerm::Node(k, kids1)) && s_reds(g, STerm::Node(k, kids1), STerm::Node(k, kids.update(i, a)), (n - 1) as nat));
    }
}

pub proof fn lemma_rr_refl(g: GCtx, t: STerm)
    ensures s_rr(g, t, t)
{
    reveal(s_rr);
    assert(s_reds(g, t, t, 0));
}

pub proof fn lemma_rr_step(g: GCtx, t: STerm, u: STerm)
    requires s_red(g, t, u)
    ensures s_rr(g, t, u)
{
    reveal(s_rr);
    assert(s_reds(g, u, u, 0));
    assert(s_red(g, t, u) && s_reds(g, u, u, 0));
    assert(s_reds(g, t, u, 1));
}

pub proof fn lemma_rr_root(g: GCtx, t: STerm, u: STerm)
    requires s_red_root(g, t, u)
    ensures s_rr(g, t, u)
{
    lemma_red_root(g, t, u);
    lemma_rr_step(g, t, u);
}

pub proof fn lemma_rr_trans(g: GCtx, t: STerm, m: STerm, u: STerm)
    requires s_rr(g, t, m), s_rr(g, m, u)
    ensures s_rr(g, t, u)
{
    reveal(s_rr);
    let n1 = choose|n: nat| s_reds(g, t, m, n);
    let n2 = choose|n: nat| s_reds(g, m, u, n);
    lemma_reds_trans(g, t, m, u, n1, n2);
}

pub proof fn lemma_rr_cong(g: GCtx, k: Kind, kids: Seq<STerm>, i: int, a: STerm)
    requires 0 <= i < kids.len(), s_rr(g_ext(g, binds(k, kids.len(), i)), kids[i], a)
    ensures s_rr(g, STerm::Node(k, kids), STerm::Node(k, kids.update(i, a)))
{
    reveal(s_rr);
    let n = choose|n: nat| s_reds(g_ext(g, binds(k, kids.len(), i)), kids[i], a, n);
    lemma_reds_cong(g, k, kids, i, a, n);
}

pub proof fn lemma_rr_cong1(g: GCtx, k: Kind, a: STerm, a2: STerm)
    requires s_rr(g_ext(g, binds(k, 1, 0)), a, a2)
    ensures s_rr(g, STerm::Node(k, s1(a)), STerm::Node(k, s1(a2)))
{
    assert(s1(a)[0] == a);
    lemma_rr_cong(g, k, s1(a), 0, a2);
    assert(s1(a).update(0, a2) =~= s1(a2));
}

pub proof fn lemma_rr_cong2(g: GCtx, k: Kind, a: STerm, b: STerm, a2: STerm, b2: STerm)
    requires s_rr(g_ext(g, binds(k, 2, 0)), a, a2), s_rr(g_ext(g, binds(k, 2, 1)), b, b2)
    ensures s_rr(g, STerm::Node(k, s2(a, b)), STerm::Node(k, s2(a2, b2)))
{
    assert(s2(a, b)[0] == a);
    lemma_rr_cong(g, k, s2(a, b), 0, a2);
    assert(s2(a, b).update(0, a2) =~= s2(a2, b));
    assert(s2(a2, b)[1] == b);
    lemma_rr_cong(g, k, s2(a2, b), 1, b2);
    assert(s2(a2, b).update(1, b2) =~= s2(a2, b2));
    lemma_rr_trans(g, STerm::Node(k, s2(a, b)), STerm::Node(k, s2(a2, b)), STerm::Node(k, s2(a2, b2)));
}

pub proof fn lemma_rr_cong3(g: GCtx, k: Kind, a: STerm, b: STerm, c: STerm, a2: STerm, b2: STerm, c2: STerm)
    requires s_rr(g_ext(g, binds(k, 3, 0)), a, a2), s_rr(g_ext(g, binds(k, 3, 1)), b, b2), s_rr(g_ext(g, binds(k, 3, 2)), c, c2)
    ensures s_rr(g, STerm::Node(k, s3(a, b, c)), STerm::Node(k, s3(a2, b2, c2)))
{
    assert(s3(a, b, c)[0] == a);
    lemma_rr_cong(g, k, s3(a, b, c), 0, a2);
    assert(s3(a, b, c).update(0, a2) =~= s3(a2, b, c));
    assert(s3(a2, b, c)[1] == b);
    lemma_rr_cong(g, k, s3(a2, b, c), 1, b2);
    assert(s3(a2, b, c).update(1, b2) =~= s3(a2, b2, c));
    assert(s3(a2, b2, c)[2] == c);
    lemma_rr_cong(g, k, s3(a2, b2, c), 2, c2);
    assert(s3(a2, b2, c).update(2, c2) =~= s3(a2, b2, c2));
    lemma_rr_trans(g, STerm::Node(k, s3(a, b, c)), STerm::Node(k, s3(a2, b, c)), STerm::Node(k, s3(a2, b2, c)));
    lemma_rr_trans(g, STerm::Node(k, s3(a, b, c)), STerm::Node(k, s3(a2, b2, c)), STerm::Node(k, s3(a2, b2, c2)));
}

// ---- the root rules, spelled out for the arities the normaliser uses ---------------------------------

pub proof fn lemma_root_prim(g: GCtx, k: Kind, a: STerm, b: STerm, u: STerm)
    requires is_binary(k), s_prim(k, a, b) == Some(u)
    ensures s_rr(g, STerm::Node(k, s2(a, b)), u)
{
    let t = STerm::Node(k, s2(a, b));
    assert(s2(a, b)[0] == a && s2(a, b)[1] == b && s2(a, b).len() == 2);
    assert(t->Node_1 == s2(a, b));
    lemma_rr_root(g, t, u);
}

pub proof fn lemma_root_neg(g: GCtx, a: STerm, x: int)
    requires lit_of(a) == Some(x)
    ensures s_rr(g, STerm::Node(Kind::Neg, s1(a)), s_lit(-x))
{
    let t = STerm::Node(Kind::Neg, s1(a));
    assert(s1(a)[0] == a && s1(a).len() == 1);
    assert(t->Node_1 == s1(a));
    lemma_rr_root(g, t, s_lit(-x));
}

pub proof fn lemma_root_if(g: GCtx, c: STerm, a: STerm, b: STerm)
    ensures
        c is Node && c->Node_0 == Kind::True ==> s_rr(g, STerm::Node(Kind::If, s3(c, a, b)), a),
        c is Node && c->Node_0 == Kind::False ==> s_rr(g, STerm::Node(Kind::If, s3(c, a, b)), b),
{
    let t = STerm::Node(Kind::If, s3(c, a, b));
    assert(s3(c, a, b)[0] == c && s3(c, a, b)[1] == a && s3(c, a, b)[2] == b && s3(c, a, b).len() == 3);
    assert(t->Node_1 == s3(c, a, b));
    if c is Node && c->Node_0 == Kind::True { lemma_rr_root(g, t, a); }
    if c is Node && c->Node_0 == Kind::False { lemma_rr_root(g, t, b); }
}

pub proof fn lemma_root_let(g: GCtx, kids: Seq<STerm>)
    requires kids.len() % 2 == 1
    ensures
        kids.len() == 1 ==> s_rr(g, STerm::Node(Kind::Let, kids), kids[0]),
        kids.len() >= 3 ==> s_rr(g, STerm::Node(Kind::Let, kids), s_let_subst(kids, ((kids.len() - 1) / 2) as nat)),
{
    let t = STerm::Node(Kind::Let, kids);
    assert(t->Node_1 == kids);
    if kids.len() == 1 { lemma_rr_root(g, t, kids[0]); }
    if kids.len() >= 3 { lemma_rr_root(g, t, s_let_subst(kids, ((kids.len() - 1) / 2) as nat)); }
}

pub proof fn lemma_root_delta(g: GCtx, i: nat, u: STerm)
    requires s_delta(g, i) == Some(u)
    ensures s_rr(g, STerm::Var(i), u)
{
    lemma_rr_root(g, STerm::Var(i), u);
}

// ---- the evaluator's semantics is a sub-relation: every s_step is an s_red (under any context) ---------

pub proof fn lemma_step_is_red(g: GCtx, t: STerm)
    requires s_step(t) is Some
    ensures s_red(g, t, s_step(t).unwrap())
    decreases t
{
    reveal(s_step);
    match t {
        STerm::Node(k, kids) => {
            assert(t->Node_1 == kids);
            if is_binary(k) && kids.len() == 2 {
                if s_step(kids[0]) is Some {
                    lemma_step_is_red(g_ext(g, binds(k, kids.len(), 0)), kids[0]);
                    lemma_red_cong(g, k, kids, 0, s_step(kids[0]).unwrap());
                    assert(kids.update(0, s_step(kids[0]).unwrap()) =~= s2(s_step(kids[0]).unwrap(), kids[1]));
                } else if s_step(kids[1]) is Some {
                    lemma_step_is_red(g_ext(g, binds(k, kids.len(), 1)), kids[1]);
                    lemma_red_cong(g, k, kids, 1, s_step(kids[1]).unwrap());
                    assert(kids.update(1, s_step(kids[1]).unwrap()) =~= s2(kids[0], s_step(kids[1]).unwrap()));
                } else {
                    lemma_red_root(g, t, s_step(t).unwrap());
                }
            } else if k == Kind::Neg && kids.len() == 1 {
                if s_step(kids[0]) is Some {
                    lemma_step_is_red(g_ext(g, binds(k, kids.len(), 0)), kids[0]);
                    lemma_red_cong(g, k, kids, 0, s_step(kids[0]).unwrap());
                    assert(kids.update(0, s_step(kids[0]).unwrap()) =~= s1(s_step(kids[0]).unwrap()));
                } else {
                    lemma_red_root(g, t, s_step(t).unwrap());
                }
            } else if k == Kind::If && kids.len() == 3 {
                if s_step(kids[0]) is Some {
                    lemma_step_is_red(g_ext(g, binds(k, kids.len(), 0)), kids[0]);
                    lemma_red_cong(g, k, kids, 0, s_step(kids[0]).unwrap());
                    assert(kids.update(0, s_step(kids[0]).unwrap()) =~= s3(s_step(kids[0]).unwrap(), kids[1], kids[2]));
                } else {
                    lemma_red_root(g, t, s_step(t).unwrap());
                }
            } else if k == Kind::Let && kids.len() % 2 == 1 {
                let m = ((kids.len() - 1) / 2) as nat;
                if m == 0 {
                    lemma_red_root(g, t, kids[0]);
                } else if s_step(kids[m as int]) is Some {
                    lemma_step_is_red(g_ext(g, binds(k, kids.len(), m as int)), kids[m as int]);
                    lemma_red_cong(g, k, kids, m as int, s_step(kids[m as int]).unwrap());
                } else {
                    lemma_red_root(g, t, s_let_subst(kids, m));
                }
            }
        }
        _ => {}
    }
}

pub proof fn lemma_steps_is_reds(g: GCtx, t: STerm, v: STerm, n: nat)
    requires s_steps(t, n) == Some(v)
    ensures s_reds(g, t, v, n)
    decreases n
{
    if n > 0 {
        let t1 = s_step(t).unwrap();
        lemma_step_is_red(g, t);
        lemma_steps_is_reds(g, t1, v, (n - 1) as nat);
        assert(s_red(g, t, t1) && s_reds(g, t1, v, (n - 1) as nat));
    }
}

pub proof fn lemma_reach_is_rr(g: GCtx, t: STerm, v: STerm)
    requires s_reach(t, v)
    ensures s_rr(g, t, v)
{
    reveal(s_rr);
    let n = choose|n: nat| s_steps(t, n) == Some(v);
    lemma_steps_is_reds(g, t, v, n);
}

// ---- ground results: integer literals and the two truth values do not reduce --------------------------

pub open spec fn s_ground(t: STerm) -> bool {
    t is Node && t->Node_1.len() == 0 && (t->Node_0 is Lit || t->Node_0 == Kind::True || t->Node_0 == Kind::False)
}

pub proof fn lemma_ground_normal(g: GCtx, t: STerm, u: STerm, n: nat)
    requires s_ground(t), s_reds(g, t, u, n)
    ensures u == t
    decreases n
{
    if n > 0 {
        let x = choose|x: STerm| #![trigger s_red(g, t, x)] s_red(g, t, x) && s_reds(g, x, u, (n - 1) as nat);
        reveal(s_red);
        assert(!s_red_root(g, t, x));
        assert(false);
    }
}

// ---- ASSUMED metatheory (the only assumption of the coherence theorem): the reduction relation is confluent.
// Standard for beta + delta (definition unfolding) + primitive rules on disjoint redex shapes; mechanising it
// (parallel reduction / Takahashi) is outside this effort.  Everything else in this file is proved.
#[verifier::external_body]
pub proof fn axiom_confluence(g: GCtx, t: STerm, a: STerm, b: STerm)
    requires s_rr(g, t, a), s_rr(g, t, b)
    ensures exists|c: STerm| #![trigger s_rr(g, a, c)] s_rr(g, a, c) && s_rr(g, b, c)
{
}

// C06, first sentence, on the abstract view: if evaluation (s_step*, the relation `evaluate` is proved against)
// reaches a ground result v and normalisation (s_red* under the empty context, the relation `normalize_weak_head`
// is proved against) reaches a ground result w, then v == w.
pub proof fn theorem_normalise_agrees_with_evaluate(t: STerm, v: STerm, w: STerm)
    requires s_reach(t, v), s_rr(g_empty(), t, w), s_ground(v), s_ground(w)
    ensures v == w
{
    let g = g_empty();
    lemma_reach_is_rr(g, t, v);
    axiom_confluence(g, t, v, w);
    let c = choose|c: STerm| #![trigger s_rr(g, v, c)] s_rr(g, v, c) && s_rr(g, w, c);
    reveal(s_rr);
    let n1 = choose|n: nat| s_reds(g, v, c, n);
    let n2 = choose|n: nat| s_reds(g, w, c, n);
    lemma_ground_normal(g, v, c, n1);
    lemma_ground_normal(g, w, c, n2);
}

// ---- erasure of what the conversion check ignores: the parameter annotation of a function and the
// annotations of a definition group -------------------------------------------------------------------

pub open spec fn s_dummy() -> STerm { STerm::Node(Kind::Type, s0()) }

pub open spec fn erased_pos(k: Kind, n: nat, i: int) -> bool {
    (k is Lambda && i == 0) || (k == Kind::Let && 0 <= i < (n - 1) / 2)
}

#[verifier::opaque]
pub open spec fn s_erase(t: STerm) -> STerm
    decreases t
{
    match t {
        STerm::Node(k, kids) => STerm::Node(k, Seq::new(kids.len(), |i: int|
            if 0 <= i < kids.len() && !erased_pos(k, kids.len(), i) { s_erase(kids[i]) } else { s_dummy() })),
        _ => t,
    }
}

pub proof fn lemma_erase_var(i: nat)
    ensures s_erase(STerm::Var(i)) == STerm::Var(i)
{
    reveal(s_erase);
}

pub proof fn lemma_erase0(k: Kind)
    ensures s_erase(STerm::Node(k, s0())) == STerm::Node(k, s0())
{
    reveal(s_erase);
    assert(s_erase(STerm::Node(k, s0()))->Node_1 =~= s0());
}

pub proof fn lemma_erase1(k: Kind, a: STerm)
    ensures s_erase(STerm::Node(k, s1(a))) == STerm::Node(k, s1(if k is Lambda { s_dummy() } else { s_erase(a) }))
{
    reveal(s_erase);
    assert(s1(a)[0] == a);
    assert(s_erase(STerm::Node(k, s1(a)))->Node_1 =~= s1(if k is Lambda { s_dummy() } else { s_erase(a) }));
}

pub proof fn lemma_erase2(k: Kind, a: STerm, b: STerm)
    ensures s_erase(STerm::Node(k, s2(a, b))) == STerm::Node(k, s2(if k is Lambda { s_dummy() } else { s_erase(a) }, s_erase(b)))
{
    reveal(s_erase);
    assert(s2(a, b)[0] == a && s2(a, b)[1] == b);
    assert(s_erase(STerm::Node(k, s2(a, b)))->Node_1 =~= s2(if k is Lambda { s_dummy() } else { s_erase(a) }, s_erase(b)));
}

pub proof fn lemma_erase3(k: Kind, a: STerm, b: STerm, c: STerm)
    ensures s_erase(STerm::Node(k, s3(a, b, c))) == STerm::Node(k, s3(if k == Kind::Let || k is Lambda { s_dummy() } else { s_erase(a) }, s_erase(b), s_erase(c)))
{
    reveal(s_erase);
    assert(s3(a, b, c)[0] == a && s3(a, b, c)[1] == b && s3(a, b, c)[2] == c);
    assert(s_erase(STerm::Node(k, s3(a, b, c)))->Node_1 =~= s3(if k == Kind::Let || k is Lambda { s_dummy() } else { s_erase(a) }, s_erase(b), s_erase(c)));
}

// Two nodes have the same erasure iff they have the same constructor, the same number of children and
// pairwise the same erasure in every position that is not ignored.
pub proof fn lemma_erase_eq(k1: Kind, kids1: Seq<STerm>, k2: Kind, kids2: Seq<STerm>)
    ensures
        (s_erase(STerm::Node(k1, kids1)) == s_erase(STerm::Node(k2, kids2))) <==> (
            k1 == k2 && kids1.len() == kids2.len()
            && forall|i: int| 0 <= i < kids1.len() && !erased_pos(k1, kids1.len(), i) ==> s_erase(#[trigger] kids1[i]) == s_erase(kids2[i])),
{
    reveal(s_erase);
    let e1 = s_erase(STerm::Node(k1, kids1));
    let e2 = s_erase(STerm::Node(k2, kids2));
    assert(STerm::Node(k1, kids1)->Node_1 == kids1);
    assert(STerm::Node(k2, kids2)->Node_1 == kids2);
    if e1 == e2 {
        assert(e1->Node_1.len() == kids1.len());
        assert(e2->Node_1.len() == kids2.len());
        assert forall|i: int| 0 <= i < kids1.len() && !erased_pos(k1, kids1.len(), i) implies s_erase(#[trigger] kids1[i]) == s_erase(kids2[i]) by {
            assert(e1->Node_1[i] == s_erase(kids1[i]));
            assert(e2->Node_1[i] == s_erase(kids2[i]));
        }
    }
    if k1 == k2 && kids1.len() == kids2.len()
        && (forall|i: int| 0 <= i < kids1.len() && !erased_pos(k1, kids1.len(), i) ==> s_erase(#[trigger] kids1[i]) == s_erase(kids2[i])) {
        assert(e1->Node_1 =~= e2->Node_1);
    }
}

// a node and a variable / hole never have the same erasure; variables by index
pub proof fn lemma_erase_shapes(a: STerm, b: STerm)
    ensures
        a is Var && s_erase(a) == s_erase(b) ==> b == a,
        a is Node && s_erase(a) == s_erase(b) ==> b is Node,
        b is Var && s_erase(a) == s_erase(b) ==> b == a,
{
    reveal(s_erase);
}

// ---- convertibility: a common reduct up to erasure -----------------------------------------------------

#[verifier::opaque]
pub open spec fn s_conv(g: GCtx, a: STerm, b: STerm) -> bool {
    exists|c: STerm, d: STerm| #![trigger s_rr(g, a, c), s_rr(g, b, d)] s_rr(g, a, c) && s_rr(g, b, d) && s_erase(c) == s_erase(d)
}

pub proof fn lemma_conv_intro(g: GCtx, a: STerm, b: STerm, c: STerm, d: STerm)
    requires s_rr(g, a, c), s_rr(g, b, d), s_erase(c) == s_erase(d)
    ensures s_conv(g, a, b)
{
    reveal(s_conv);
}

pub proof fn lemma_conv_erase_eq(g: GCtx, a: STerm, b: STerm)
    requires s_erase(a) == s_erase(b)
    ensures s_conv(g, a, b)
{
    lemma_rr_refl(g, a);
    lemma_rr_refl(g, b);
    lemma_conv_intro(g, a, b, a, b);
}

// conversion is closed under reduction of either side (backwards)
pub proof fn lemma_conv_pre(g: GCtx, a: STerm, a1: STerm, b: STerm, b1: STerm)
    requires s_rr(g, a, a1), s_rr(g, b, b1), s_conv(g, a1, b1)
    ensures s_conv(g, a, b)
{
    reveal(s_conv);
    let (c, d) = choose|c: STerm, d: STerm| #![trigger s_rr(g, a1, c), s_rr(g, b1, d)] s_rr(g, a1, c) && s_rr(g, b1, d) && s_erase(c) == s_erase(d);
    lemma_rr_trans(g, a, a1, c);
    lemma_rr_trans(g, b, b1, d);
    assert(s_rr(g, a, c) && s_rr(g, b, d) && s_erase(c) == s_erase(d));
}

pub proof fn lemma_conv_node1(g: GCtx, k: Kind, a1: STerm, a2: STerm)
    requires s_conv(g_ext(g, binds(k, 1, 0)), a1, a2)
    ensures s_conv(g, STerm::Node(k, s1(a1)), STerm::Node(k, s1(a2)))
{
    reveal(s_conv);
    let ga = g_ext(g, binds(k, 1, 0));
    let (c, d) = choose|c: STerm, d: STerm| #![trigger s_rr(ga, a1, c), s_rr(ga, a2, d)] s_rr(ga, a1, c) && s_rr(ga, a2, d) && s_erase(c) == s_erase(d);
    lemma_rr_cong1(g, k, a1, c);
    lemma_rr_cong1(g, k, a2, d);
    lemma_erase1(k, c);
    lemma_erase1(k, d);
    lemma_conv_intro(g, STerm::Node(k, s1(a1)), STerm::Node(k, s1(a2)), STerm::Node(k, s1(c)), STerm::Node(k, s1(d)));
}

// both children convertible, each under the binders it sits under (for a function only the body: its annotation is ignored)
pub proof fn lemma_conv_node2(g: GCtx, k: Kind, a1: STerm, b1: STerm, a2: STerm, b2: STerm)
    requires k is Lambda || s_conv(g_ext(g, binds(k, 2, 0)), a1, a2), s_conv(g_ext(g, binds(k, 2, 1)), b1, b2)
    ensures s_conv(g, STerm::Node(k, s2(a1, b1)), STerm::Node(k, s2(a2, b2)))
{
    reveal(s_conv);
    let ga = g_ext(g, binds(k, 2, 0));
    let gb = g_ext(g, binds(k, 2, 1));
    let (cb, db) = choose|c: STerm, d: STerm| #![trigger s_rr(gb, b1, c), s_rr(gb, b2, d)] s_rr(gb, b1, c) && s_rr(gb, b2, d) && s_erase(c) == s_erase(d);
    let (ca, da) = if k is Lambda { (a1, a2) } else {
        choose|c: STerm, d: STerm| #![trigger s_rr(ga, a1, c), s_rr(ga, a2, d)] s_rr(ga, a1, c) && s_rr(ga, a2, d) && s_erase(c) == s_erase(d)
    };
    lemma_rr_refl(ga, a1);
    lemma_rr_refl(ga, a2);
    lemma_rr_cong2(g, k, a1, b1, ca, cb);
    lemma_rr_cong2(g, k, a2, b2, da, db);
    lemma_erase2(k, ca, cb);
    lemma_erase2(k, da, db);
    lemma_conv_intro(g, STerm::Node(k, s2(a1, b1)), STerm::Node(k, s2(a2, b2)), STerm::Node(k, s2(ca, cb)), STerm::Node(k, s2(da, db)));
}

pub proof fn lemma_conv_node3(g: GCtx, k: Kind, a1: STerm, b1: STerm, c1: STerm, a2: STerm, b2: STerm, c2: STerm)
    requires k != Kind::Let, !(k is Lambda), !(k is Pi), s_conv(g, a1, a2), s_conv(g, b1, b2), s_conv(g, c1, c2)
    ensures s_conv(g, STerm::Node(k, s3(a1, b1, c1)), STerm::Node(k, s3(a2, b2, c2)))
{
    reveal(s_conv);
    let (ca, da) = choose|c: STerm, d: STerm| #![trigger s_rr(g, a1, c), s_rr(g, a2, d)] s_rr(g, a1, c) && s_rr(g, a2, d) && s_erase(c) == s_erase(d);
    let (cb, db) = choose|c: STerm, d: STerm| #![trigger s_rr(g, b1, c), s_rr(g, b2, d)] s_rr(g, b1, c) && s_rr(g, b2, d) && s_erase(c) == s_erase(d);
    let (cc, dc) = choose|c: STerm, d: STerm| #![trigger s_rr(g, c1, c), s_rr(g, c2, d)] s_rr(g, c1, c) && s_rr(g, c2, d) && s_erase(c) == s_erase(d);
    lemma_rr_cong3(g, k, a1, b1, c1, ca, cb, cc);
    lemma_rr_cong3(g, k, a2, b2, c2, da, db, dc);
    lemma_erase3(k, ca, cb, cc);
    lemma_erase3(k, da, db, dc);
    lemma_conv_intro(g, STerm::Node(k, s3(a1, b1, c1)), STerm::Node(k, s3(a2, b2, c2)), STerm::Node(k, s3(ca, cb, cc)), STerm::Node(k, s3(da, db, dc)));
}

// ---- TRUSTED: the physical size bound used by the normaliser and the conversion check ------------------
// Same nature as axiom_term_fits (eval_spec.rs), for a term that lives under a context of l variables and e
// further binders (e = the size of a definition group being unfolded, below 2^56 by what was proved before): a
// heap-allocated term without unresolved holes whose free variables are below l + e, and a context vector of
// length l, have indices, binder depth, group sizes and l below 2^56 (every binder on a path and every context
// entry is a distinct heap object of at least 16 bytes; the user address space of x86-64 holds fewer than 2^43
// of them).  It is only ever applied to values that exist at run time (a parameter, a named local).  What is
// PROVED at every use: the term has no unresolved hole, is closed at l + e and below 2^60.
pub open spec fn HB() -> int { SB() / 2 }

// closedness, kept opaque in this unit: the exec proofs only pass it around, the lemmas reveal it
#[verifier::opaque]
pub open spec fn s_cl(t: STerm, c: nat) -> bool { s_closed_at(t, c) }


#[verifier::external_body]
pub proof fn axiom_fits_under<'a>(t: &Term<'a>, ctx: &Vec<Option<(Rc<Term<'a>>, usize)>>, e: nat)
    requires
        s_ok(view(*t), 0, BOUND() as nat),
        s_cl(view(*t), ctx@.len() + e),
        e < HB(),
    ensures
        s_ok(view(*t), 0, HB() as nat),
        ctx@.len() < HB(),
{
}

// the abstract view of the real definitions context
#[verifier::opaque]
pub open spec fn ctx_view<'a>(ctx: Seq<Option<(Rc<Term<'a>>, usize)>>) -> GCtx {
    Seq::new(ctx.len(), |p: int| match ctx[p] {
        Some((d, off)) => Some((view(*d), off as nat)),
        None => None::<(STerm, nat)>,
    })
}

// Well-formedness of the real definitions context (precondition; what the type checker establishes when it pushes the
// definitions of a group): a let-bound entry at position p with offset off has its definition valid in the prefix of
// length p + off, which is part of the context; the definition has no unresolved hole and is small.
#[verifier::opaque]
pub open spec fn ctx_ok<'a>(ctx: Seq<Option<(Rc<Term<'a>>, usize)>>) -> bool {
    forall|p: int| 0 <= p < ctx.len() ==> match #[trigger] ctx[p] {
        Some((d, off)) => p + off <= ctx.len() && s_ok(view(*d), 0, HB() as nat) && s_cl(view(*d), (p + off) as nat),
        None => true,
    }
}

// what the normaliser returns is never a definition group (and, without unresolved holes, never a hole)
pub open spec fn t_head_ok(t: Term) -> bool {
    !(t.variant is Let) && !(t.variant is Unifier)
}

// ---- weak-head normal forms of the reference relation (what normalize_weak_head must return: it may not stop
// early) ---------------------------------------------------------------------------------------------------
// values and variables; an application whose head is a whnf that is not a function; an arithmetic / comparison
// node whose operands are whnf and not both literals (or a division of literals by zero); a negation of a whnf
// that is no literal; a conditional whose condition is a whnf that is no truth value.  A definition group or a
// hole is never one.
#[verifier::opaque]
pub open spec fn s_whnf(g: GCtx, t: STerm) -> bool
    decreases t
{
    match t {
        STerm::Hole => false,
        // a let-bound variable unfolds; a plain one is neutral
        STerm::Var(i) => s_delta(g, i) is None,
        STerm::Node(k, kids) =>
            if s_value(t) { true }
            else if is_binary(k) && kids.len() == 2 {
                if k == Kind::App { s_whnf(g, kids[0]) && s_prim(k, kids[0], kids[1]) is None }
                else { s_whnf(g, kids[0]) && s_whnf(g, kids[1]) && s_prim(k, kids[0], kids[1]) is None }
            } else if k == Kind::Neg && kids.len() == 1 {
                s_whnf(g, kids[0]) && lit_of(kids[0]) is None
            } else if k == Kind::If && kids.len() == 3 {
                s_whnf(g, kids[0]) && !(kids[0] is Node && (kids[0]->Node_0 == Kind::True || kids[0]->Node_0 == Kind::False))
            } else { false },
    }
}

pub proof fn lemma_whnf_value(g: GCtx, t: STerm)
    requires s_value(t)
    ensures s_whnf(g, t)
{
    reveal(s_whnf);
}

pub proof fn lemma_whnf_var(g: GCtx, i: nat)
    requires s_delta(g, i) is None
    ensures s_whnf(g, STerm::Var(i))
{
    reveal(s_whnf);
}

pub proof fn lemma_whnf_shape(g: GCtx, t: STerm)
    requires s_whnf(g, t)
    ensures !(t is Hole), !(t is Node && t->Node_0 == Kind::Let)
{
    reveal(s_whnf);
}

pub proof fn lemma_whnf1(g: GCtx, a: STerm)
    ensures s_whnf(g, STerm::Node(Kind::Neg, s1(a))) == (s_whnf(g, a) && lit_of(a) is None)
{
    reveal(s_whnf);
    assert(s1(a)[0] == a && s1(a).len() == 1);
    assert(STerm::Node(Kind::Neg, s1(a))->Node_1 == s1(a));
}

pub proof fn lemma_whnf2(g: GCtx, k: Kind, a: STerm, b: STerm)
    requires is_binary(k)
    ensures s_whnf(g, STerm::Node(k, s2(a, b))) == (s_whnf(g, a) && (k == Kind::App || s_whnf(g, b)) && s_prim(k, a, b) is None)
{
    reveal(s_whnf);
    assert(s2(a, b)[0] == a && s2(a, b)[1] == b && s2(a, b).len() == 2);
    assert(STerm::Node(k, s2(a, b))->Node_1 == s2(a, b));
}

pub proof fn lemma_whnf3(g: GCtx, c: STerm, a: STerm, b: STerm)
    ensures s_whnf(g, STerm::Node(Kind::If, s3(c, a, b))) == (s_whnf(g, c) && !(c is Node && (c->Node_0 == Kind::True || c->Node_0 == Kind::False)))
{
    reveal(s_whnf);
    assert(s3(c, a, b)[0] == c && s3(c, a, b).len() == 3);
    assert(STerm::Node(Kind::If, s3(c, a, b))->Node_1 == s3(c, a, b));
}
