// ---- call-by-value small-step semantics on the abstract view (hand-written from the statement of
// C02; see DESIGN.md 5/C02) ------------------------------------------------------------------------

// Overflow guard for the evaluator: step needs room for three nested substitutions.
pub open spec fn SB() -> int { BOUND() / 8 }

pub open spec fn s_value(t: STerm) -> bool {
    match t {
        STerm::Node(k, _) => match k {
            Kind::Type | Kind::Lambda(_) | Kind::Pi(_) | Kind::Integer | Kind::Lit(_) | Kind::Boolean | Kind::True | Kind::False => true,
            _ => false,
        },
        _ => false,
    }
}

// Application and the nine binary operators: left operand first, then the right one, then fire.
pub open spec fn is_binary(k: Kind) -> bool {
    match k {
        Kind::App | Kind::Sum | Kind::Difference | Kind::Product | Kind::Quotient | Kind::LessThan
        | Kind::LessThanOrEqualTo | Kind::EqualTo | Kind::GreaterThan | Kind::GreaterThanOrEqualTo => true,
        _ => false,
    }
}

pub open spec fn s_lit(x: int) -> STerm { STerm::Node(Kind::Lit(x), s0()) }
pub open spec fn s_bool(b: bool) -> STerm { if b { STerm::Node(Kind::True, s0()) } else { STerm::Node(Kind::False, s0()) } }

pub open spec fn lit_of(t: STerm) -> Option<int> {
    match t {
        STerm::Node(Kind::Lit(x), _) => Some(x),
        _ => None,
    }
}

// The primitive fired once both operands are values.
pub open spec fn s_prim(k: Kind, a: STerm, b: STerm) -> Option<STerm> {
    match k {
        Kind::App => match a {
            // beta: the body is opened with the argument
            STerm::Node(Kind::Lambda(_), ks) => if ks.len() == 2 { Some(s_open(ks[1], 0, b, 0)) } else { None },
            _ => None,
        },
        _ => match (lit_of(a), lit_of(b)) {
            (Some(x), Some(y)) => match k {
                Kind::Sum => Some(s_lit(x + y)),
                Kind::Difference => Some(s_lit(x - y)),
                Kind::Product => Some(s_lit(x * y)),
                Kind::Quotient => if y == 0 { None } else { Some(s_lit(trunc_div(x, y))) },
                Kind::LessThan => Some(s_bool(x < y)),
                Kind::LessThanOrEqualTo => Some(s_bool(x <= y)),
                Kind::EqualTo => Some(s_bool(x == y)),
                Kind::GreaterThan => Some(s_bool(x > y)),
                Kind::GreaterThanOrEqualTo => Some(s_bool(x >= y)),
                _ => None,
            },
            _ => None,
        },
    }
}

// What a definition group [A_0..A_{m-1}, d_0..d_{m-1}, b] (m >= 1) becomes once d_0 is a value:
// x_0 is replaced, in the remaining definitions, annotations and the body, by
//     U = d_0[x_0 := (x_0 : A_0 = d_0; x_0)]
// i.e. d_0 with its recursive occurrences re-wrapped in a single-definition group, so that the
// recursion keeps unfolding.  x_0 has index m-1 inside the group.
pub open spec fn s_unfolded(kids: Seq<STerm>, m: nat) -> STerm
    recommends m >= 1, kids.len() == 2 * m + 1
{
    let v = STerm::Var(0);
    let a1 = s_open(s_raise(kids[0], 1), m, v, 0);
    let d1 = s_open(s_raise(kids[m as int], 1), m, v, 0);
    let w = STerm::Node(Kind::Let, s3(a1, d1, v));
    s_open(kids[m as int], (m - 1) as nat, w, 0)
}

pub open spec fn s_let_subst(kids: Seq<STerm>, m: nat) -> STerm
    recommends m >= 1, kids.len() == 2 * m + 1
{
    let u = s_unfolded(kids, m);
    STerm::Node(Kind::Let, Seq::new((2 * m - 1) as nat, |i: int|
        s_open(kids[if i < m - 1 { i + 1 } else { i + 2 }], (m - 1) as nat, u, 0)))
}

#[verifier::opaque]
pub open spec fn s_step(t: STerm) -> Option<STerm>
    decreases t
{
    match t {
        STerm::Node(k, kids) =>
            if is_binary(k) && kids.len() == 2 {
                match s_step(kids[0]) {
                    Some(a1) => Some(STerm::Node(k, s2(a1, kids[1]))),
                    None => if !s_value(kids[0]) { None } else {
                        match s_step(kids[1]) {
                            Some(b1) => Some(STerm::Node(k, s2(kids[0], b1))),
                            None => if !s_value(kids[1]) { None } else { s_prim(k, kids[0], kids[1]) },
                        }
                    },
                }
            } else if k == Kind::Neg && kids.len() == 1 {
                match s_step(kids[0]) {
                    Some(a1) => Some(STerm::Node(k, s1(a1))),
                    None => match lit_of(kids[0]) {
                        Some(x) => Some(s_lit(-x)),
                        None => None,
                    },
                }
            } else if k == Kind::If && kids.len() == 3 {
                match s_step(kids[0]) {
                    Some(c1) => Some(STerm::Node(k, s3(c1, kids[1], kids[2]))),
                    None => match kids[0] {
                        // only the chosen branch is touched
                        STerm::Node(Kind::True, _) => Some(kids[1]),
                        STerm::Node(Kind::False, _) => Some(kids[2]),
                        _ => None,
                    },
                }
            } else if k == Kind::Let && kids.len() % 2 == 1 {
                let m = ((kids.len() - 1) / 2) as nat;
                if m == 0 {
                    Some(kids[0])
                } else {
                    // definitions are evaluated in order: the first one first
                    match s_step(kids[m as int]) {
                        Some(d1) => Some(STerm::Node(k, kids.update(m as int, d1))),
                        None => if !s_value(kids[m as int]) { None } else { Some(s_let_subst(kids, m)) },
                    }
                }
            } else {
                None
            },
        _ => None,
    }
}

// Reflexive-transitive closure, witnessed by a step count.
pub open spec fn s_steps(t: STerm, n: nat) -> Option<STerm>
    decreases n
{
    if n == 0 { Some(t) } else {
        match s_step(t) {
            Some(t1) => s_steps(t1, (n - 1) as nat),
            None => None,
        }
    }
}

pub open spec fn s_reach(t: STerm, r: STerm) -> bool {
    exists|n: nat| s_steps(t, n) == Some(r)
}

// zero or one step of the reference semantics ("zero" = a silent step that only replaces a resolved hole
// by its content; the abstract view does not change)
#[verifier::opaque]
pub open spec fn s_step01(a: STerm, b: STerm) -> bool {
    b == a || s_step(a) == Some(b)
}

// ---- unfolding lemmas for the exec proof --------------------------------------------------------

pub broadcast proof fn lemma_step_var(i: nat)
    ensures (#[trigger] s_step(STerm::Var(i))) is None
{
    reveal(s_step);
}

pub broadcast proof fn lemma_step_hole()
    ensures s_step(STerm::Hole) is None
{
    reveal(s_step);
}

pub broadcast proof fn lemma_step0(k: Kind)
    ensures (#[trigger] s_step(STerm::Node(k, s0()))) == (if k == Kind::Let { None::<STerm> } else { None::<STerm> })
{
    reveal(s_step);
    assert(s0().len() == 0);
}

pub broadcast proof fn lemma_step_value(t: STerm)
    requires s_value(t)
    ensures (#[trigger] s_step(t)) is None
{
    reveal(s_step);
}

pub broadcast proof fn lemma_step1(a: STerm)
    ensures #[trigger] s_step(STerm::Node(Kind::Neg, s1(a))) == (match s_step(a) {
        Some(a1) => Some(STerm::Node(Kind::Neg, s1(a1))),
        None => match lit_of(a) { Some(x) => Some(s_lit(-x)), None => None },
    })
{
    reveal(s_step);
    let kids = s1(a);
    assert(kids[0] == a);
    assert(kids.len() == 1);
    assert(STerm::Node(Kind::Neg, kids)->Node_1 == kids);
}

pub broadcast proof fn lemma_step2(k: Kind, a: STerm, b: STerm)
    requires is_binary(k)
    ensures #[trigger] s_step(STerm::Node(k, s2(a, b))) == (match s_step(a) {
        Some(a1) => Some(STerm::Node(k, s2(a1, b))),
        None => if !s_value(a) { None } else {
            match s_step(b) {
                Some(b1) => Some(STerm::Node(k, s2(a, b1))),
                None => if !s_value(b) { None } else { s_prim(k, a, b) },
            }
        },
    })
{
    reveal(s_step);
    let kids = s2(a, b);
    assert(kids[0] == a);
    assert(kids[1] == b);
    assert(kids.len() == 2);
    assert(STerm::Node(k, kids)->Node_1 == kids);
}

pub broadcast proof fn lemma_step3(a: STerm, b: STerm, c: STerm)
    ensures #[trigger] s_step(STerm::Node(Kind::If, s3(a, b, c))) == (match s_step(a) {
        Some(a1) => Some(STerm::Node(Kind::If, s3(a1, b, c))),
        None => match a {
            STerm::Node(Kind::True, _) => Some(b),
            STerm::Node(Kind::False, _) => Some(c),
            _ => None,
        },
    })
{
    reveal(s_step);
    let kids = s3(a, b, c);
    assert(kids[0] == a);
    assert(kids[1] == b);
    assert(kids[2] == c);
    assert(kids.len() == 3);
    assert(STerm::Node(Kind::If, kids)->Node_1 == kids);
}

pub proof fn lemma_step_let(kids: Seq<STerm>)
    requires kids.len() % 2 == 1
    ensures s_step(STerm::Node(Kind::Let, kids)) == ({
        let m = ((kids.len() - 1) / 2) as nat;
        if m == 0 { Some(kids[0]) } else {
            match s_step(kids[m as int]) {
                Some(d1) => Some(STerm::Node(Kind::Let, kids.update(m as int, d1))),
                None => if !s_value(kids[m as int]) { None } else { Some(s_let_subst(kids, m)) },
            }
        }
    })
{
    reveal(s_step);
    assert(STerm::Node(Kind::Let, kids)->Node_1 == kids);
}

pub broadcast proof fn lemma01_refl(a: STerm)
    ensures #[trigger] s_step01(a, a)
{
    reveal(s_step01);
}

pub broadcast proof fn lemma01_real(a: STerm, b: STerm)
    requires s_step(a) == Some(b)
    ensures #[trigger] s_step01(a, b)
{
    reveal(s_step01);
}

pub broadcast proof fn lemma01_bin_left(k: Kind, a: STerm, b: STerm, a1: STerm)
    requires is_binary(k), s_step01(a, a1)
    ensures #[trigger] s_step01(STerm::Node(k, s2(a, b)), STerm::Node(k, s2(a1, b)))
{
    reveal(s_step01);
    lemma_step2(k, a, b);
}

pub broadcast proof fn lemma01_bin_right(k: Kind, a: STerm, b: STerm, b1: STerm)
    requires is_binary(k), s_step(a) is None, s_value(a), s_step01(b, b1)
    ensures #[trigger] s_step01(STerm::Node(k, s2(a, b)), STerm::Node(k, s2(a, b1)))
{
    reveal(s_step01);
    lemma_step2(k, a, b);
}

pub broadcast proof fn lemma01_neg(a: STerm, a1: STerm)
    requires s_step01(a, a1)
    ensures #[trigger] s_step01(STerm::Node(Kind::Neg, s1(a)), STerm::Node(Kind::Neg, s1(a1)))
{
    reveal(s_step01);
    lemma_step1(a);
}

pub broadcast proof fn lemma01_if(a: STerm, b: STerm, c: STerm, a1: STerm)
    requires s_step01(a, a1)
    ensures #[trigger] s_step01(STerm::Node(Kind::If, s3(a, b, c)), STerm::Node(Kind::If, s3(a1, b, c)))
{
    reveal(s_step01);
    lemma_step3(a, b, c);
}

pub proof fn lemma01_let(kids: Seq<STerm>, d1: STerm)
    requires
        kids.len() % 2 == 1,
        kids.len() >= 3,
        s_step01(kids[(kids.len() - 1) / 2], d1),
    ensures
        s_step01(STerm::Node(Kind::Let, kids), STerm::Node(Kind::Let, kids.update((kids.len() - 1) / 2, d1))),
{
    reveal(s_step01);
    lemma_step_let(kids);
    let m = (kids.len() - 1) / 2;
    if d1 == kids[m] { assert(kids.update(m, d1) =~= kids); }
}

pub broadcast group group_step01 { lemma01_refl, lemma01_real, lemma01_bin_left, lemma01_bin_right, lemma01_neg, lemma01_if }

pub broadcast group group_step { lemma_step_var, lemma_step0, lemma_step_value, lemma_step1, lemma_step2, lemma_step3 }

// ---- the overflow guard survives a step (so that `evaluate` can call `step` again) -----------------

pub proof fn lemma_let_subst_ok(kids: Seq<STerm>, m: nat, c: nat)
    requires
        m >= 1,
        kids.len() == 2 * m + 1,
        c + m < SB(),
        forall|i: int| 0 <= i < kids.len() ==> s_ok(#[trigger] kids[i], c + m, SB() as nat),
    ensures
        s_ok(s_unfolded(kids, m), c + m, (4 * SB() + 5) as nat),
        s_ok(s_let_subst(kids, m), c, BOUND() as nat),
{
    let sb = SB() as nat;
    let bb = BOUND() as nat;
    let cm = c + m;
    let v = STerm::Var(0);
    let a0 = kids[0];
    let d0 = kids[m as int];
    assert(s_ok(a0, cm, sb));
    assert(s_ok(d0, cm, sb));
    lemma_ok_shift(a0, cm, sb, 0, 1);
    lemma_ok_shift(d0, cm, sb, 0, 1);
    let a0s = s_raise(a0, 1);
    let d0s = s_raise(d0, 1);
    lemma_ok_var(0, 0, 1);
    lemma_ok_open(a0s, cm, sb + 1, m, v, 1, 0, 0);
    lemma_ok_open(d0s, cm, sb + 1, m, v, 1, 0, 0);
    let a1 = s_open(a0s, m, v, 0);
    let d1 = s_open(d0s, m, v, 0);
    let b1 = 2 * (sb + 1) + 1;
    lemma_ok_weaken(a1, cm, b1, 1, b1);
    lemma_ok_weaken(d1, cm, b1, 1, b1);
    lemma_ok_var(0, 1, b1);
    let w = STerm::Node(Kind::Let, s3(a1, d1, v));
    lemma_ok3(Kind::Let, a1, d1, v, 0, b1);
    assert(s_ok(w, 0, b1));
    lemma_ok_open(d0, cm, sb, (m - 1) as nat, w, b1, 0, 0);
    let u = s_open(d0, (m - 1) as nat, w, 0);
    assert(u == s_unfolded(kids, m));
    let b2 = 2 * sb + b1;
    lemma_ok_weaken(u, cm, b2, 0, b2);
    lemma_ok_weaken(u, cm, b2, cm, (4 * SB() + 5) as nat);
    let r = s_let_subst(kids, m);
    let rk = r->Node_1;
    let b3 = 2 * sb + b2;
    assert(rk.len() == 2 * m - 1);
    assert forall|i: int| 0 <= i < rk.len() implies s_ok(#[trigger] rk[i], c + binds(Kind::Let, rk.len(), i), bb) by {
        let i2 = if i < m - 1 { i + 1 } else { i + 2 };
        assert(s_ok(kids[i2], cm, sb));
        lemma_ok_open(kids[i2], cm, sb, (m - 1) as nat, u, b2, 0, 0);
        assert(rk[i] == s_open(kids[i2], (m - 1) as nat, u, 0));
        lemma_ok_weaken(rk[i], cm, b3, (c + m - 1) as nat, bb);
        assert(binds(Kind::Let, rk.len(), i) == m - 1);
    }
    reveal(s_ok);
    assert(r->Node_1 == rk);
}

// Exactly the overflow-guard facts that the Let arm of the real `step` needs for its chain of
// shift/open calls (c = 0), packaged so that the exec proof context stays small.
pub proof fn lemma_let_chain(kids: Seq<STerm>, m: nat)
    requires
        m >= 1,
        kids.len() == 2 * m + 1,
        m < SB(),
        forall|i: int| 0 <= i < kids.len() ==> s_ok(#[trigger] kids[i], m, SB() as nat),
    ensures
        forall|i: int| 0 <= i < kids.len() ==> s_ok(#[trigger] kids[i], 0, SB() as nat) && s_ok(kids[i], 0, BOUND() as nat) && s_ok(kids[i], (m - 1) as nat, BOUND() as nat),
        s_ok(s_raise(kids[0], 1), m, BOUND() as nat),
        s_ok(s_raise(kids[0], 1), 0, BOUND() as nat),
        s_ok(s_raise(kids[m as int], 1), m, BOUND() as nat),
        s_ok(s_raise(kids[m as int], 1), 0, BOUND() as nat),
        s_shift(kids[0], 0, 1) == Some(s_raise(kids[0], 1)),
        s_shift(kids[m as int], 0, 1) == Some(s_raise(kids[m as int], 1)),
        s_ok(STerm::Var(0), 0, BOUND() as nat),
        s_ok(STerm::Node(Kind::Let, s3(s_open(s_raise(kids[0], 1), m, STerm::Var(0), 0), s_open(s_raise(kids[m as int], 1), m, STerm::Var(0), 0), STerm::Var(0))), 0, BOUND() as nat),
        s_ok(s_unfolded(kids, m), 0, BOUND() as nat),
{
    let sb = SB() as nat;
    let bb = BOUND() as nat;
    let v = STerm::Var(0);
    assert forall|i: int| 0 <= i < kids.len() implies s_ok(#[trigger] kids[i], 0, sb) && s_ok(kids[i], 0, bb) && s_ok(kids[i], (m - 1) as nat, bb) by {
        lemma_ok_weaken(kids[i], m, sb, 0, sb);
        lemma_ok_weaken(kids[i], m, sb, 0, bb);
        lemma_ok_weaken(kids[i], m, sb, (m - 1) as nat, bb);
    }
    let a0 = kids[0];
    let d0 = kids[m as int];
    lemma_ok_shift(a0, m, sb, 0, 1);
    lemma_ok_shift(d0, m, sb, 0, 1);
    let a0s = s_raise(a0, 1);
    let d0s = s_raise(d0, 1);
    lemma_ok_weaken(a0s, m, sb + 1, m, bb);
    lemma_ok_weaken(a0s, m, sb + 1, 0, bb);
    lemma_ok_weaken(d0s, m, sb + 1, m, bb);
    lemma_ok_weaken(d0s, m, sb + 1, 0, bb);
    lemma_ok_var(0, 0, 1);
    lemma_ok_var(0, 0, bb);
    lemma_ok_open(a0s, m, sb + 1, m, v, 1, 0, 0);
    lemma_ok_open(d0s, m, sb + 1, m, v, 1, 0, 0);
    let a1 = s_open(a0s, m, v, 0);
    let d1 = s_open(d0s, m, v, 0);
    let b1 = 2 * (sb + 1) + 1;
    lemma_ok_weaken(a1, m, b1, 1, bb);
    lemma_ok_weaken(d1, m, b1, 1, bb);
    lemma_ok_var(0, 1, bb);
    lemma_ok3(Kind::Let, a1, d1, v, 0, bb);
    lemma_let_subst_ok(kids, m, 0);
    lemma_ok_weaken(s_unfolded(kids, m), m, (4 * SB() + 5) as nat, 0, bb);
}

pub proof fn lemma_step_ok(t: STerm, c: nat)
    requires
        s_ok(t, c, SB() as nat),
        s_step(t) is Some,
    ensures
        s_ok(s_step(t).unwrap(), c, BOUND() as nat),
    decreases t
{
    reveal(s_step);
    let sb = SB() as nat;
    let bb = BOUND() as nat;
    match t {
        STerm::Node(k, kids) => {
            assert(t->Node_1 == kids);
            assert forall|i: int| 0 <= i < kids.len() implies s_ok(#[trigger] kids[i], c + binds(k, kids.len(), i), sb) by { reveal(s_ok); }
            assert(c < sb) by { reveal(s_ok); }
            if is_binary(k) && kids.len() == 2 {
                let a = kids[0];
                let b = kids[1];
                assert(s_ok(a, c, sb));
                assert(s_ok(b, c, sb));
                lemma_ok_weaken(a, c, sb, c, bb);
                lemma_ok_weaken(b, c, sb, c, bb);
                if s_step(a) is Some {
                    lemma_step_ok(a, c);
                    lemma_ok2(k, s_step(a).unwrap(), b, c, bb);
                } else if s_step(b) is Some {
                    lemma_step_ok(b, c);
                    lemma_ok2(k, a, s_step(b).unwrap(), c, bb);
                } else {
                    if k == Kind::App {
                        match a {
                            STerm::Node(Kind::Lambda(_), ks) => {
                                if ks.len() == 2 {
                                    assert(a->Node_1 == ks);
                                    assert(s_ok(ks[1], c + binds(a->Node_0, ks.len(), 1), sb)) by { reveal(s_ok); }
                                    lemma_ok_weaken(b, c, sb, 0, sb);
                                    lemma_ok_open(ks[1], c + 1, sb, 0, b, sb, 0, 0);
                                    lemma_ok_weaken(s_open(ks[1], 0, b, 0), c + 1, 3 * sb, c, bb);
                                }
                            }
                            _ => {}
                        }
                    } else {
                        lemma_ok0(Kind::True, c, bb);
                        lemma_ok0(Kind::False, c, bb);
                        match (lit_of(a), lit_of(b)) {
                            (Some(x), Some(y)) => {
                                lemma_ok0(Kind::Lit(x + y), c, bb);
                                lemma_ok0(Kind::Lit(x - y), c, bb);
                                lemma_ok0(Kind::Lit(x * y), c, bb);
                                lemma_ok0(Kind::Lit(trunc_div(x, y)), c, bb);
                            }
                            _ => {}
                        }
                    }
                }
            } else if k == Kind::Neg && kids.len() == 1 {
                let a = kids[0];
                assert(s_ok(a, c, sb));
                if s_step(a) is Some {
                    lemma_step_ok(a, c);
                    lemma_ok1(k, s_step(a).unwrap(), c, bb);
                } else {
                    match lit_of(a) {
                        Some(x) => { lemma_ok0(Kind::Lit(-x), c, bb); }
                        None => {}
                    }
                }
            } else if k == Kind::If && kids.len() == 3 {
                let a = kids[0];
                assert(s_ok(a, c, sb));
                assert(s_ok(kids[1], c, sb));
                assert(s_ok(kids[2], c, sb));
                lemma_ok_weaken(kids[1], c, sb, c, bb);
                lemma_ok_weaken(kids[2], c, sb, c, bb);
                if s_step(a) is Some {
                    lemma_step_ok(a, c);
                    lemma_ok3(k, s_step(a).unwrap(), kids[1], kids[2], c, bb);
                }
            } else if k == Kind::Let && kids.len() % 2 == 1 {
                let m = ((kids.len() - 1) / 2) as nat;
                assert forall|i: int| 0 <= i < kids.len() implies binds(k, kids.len(), i) == m by {}
                if m == 0 {
                    assert(s_ok(kids[0], c, sb));
                    lemma_ok_weaken(kids[0], c, sb, c, bb);
                } else {
                    let d0 = kids[m as int];
                    assert(s_ok(d0, c + m, sb));
                    assert(c + m < sb) by { reveal(s_ok); }
                    if s_step(d0) is Some {
                        lemma_step_ok(d0, c + m);
                        let d1 = s_step(d0).unwrap();
                        let nk = kids.update(m as int, d1);
                        assert forall|i: int| 0 <= i < nk.len() implies s_ok(#[trigger] nk[i], c + binds(k, nk.len(), i), bb) by {
                            if i != m { assert(nk[i] == kids[i]); assert(s_ok(kids[i], c + m, sb)); lemma_ok_weaken(kids[i], c + m, sb, c + m, bb); }
                        }
                        reveal(s_ok);
                        assert(STerm::Node(k, nk)->Node_1 == nk);
                    } else {
                        lemma_let_subst_ok(kids, m, c);
                    }
                }
            }
        }
        _ => {}
    }
}

pub proof fn lemma_steps_snoc(t: STerm, n: nat, r: STerm)
    requires
        s_steps(t, n) == Some(r),
        s_step(r) is Some,
    ensures
        s_steps(t, n + 1) == s_step(r),
    decreases n
{
    reveal_with_fuel(s_steps, 3);
    if n > 0 {
        assert(s_step(t) is Some);
        let t1 = s_step(t).unwrap();
        assert(s_steps(t, n) == s_steps(t1, (n - 1) as nat));
        lemma_steps_snoc(t1, (n - 1) as nat, r);
        assert(s_steps(t, n + 1) == s_steps(t1, n));
    } else {
        assert(r == t);
        assert(s_steps(t, 1) == s_steps(s_step(t).unwrap(), 0));
    }
}

// ---- TRUSTED: the physical size bound used by `evaluate` ------------------------------------------
// A hole-free CLOSED term whose indices, binder depth and group sizes are below 2^60 actually has them
// below 2^57: every binder on a path is a distinct heap object of at least 16 bytes, every index of a
// closed term is below the number of binders above it, and 2^57 such objects do not fit in a 64-bit
// address space.  Hole-freeness, closedness and the 2^60 bound themselves are PROVED to be preserved by
// every step (lemma_step_ok, lemma_step_closed); only the gap between 2^57 and 2^60 is assumed here.
#[verifier::external_body]
pub proof fn axiom_term_fits(t: Term)
    requires
        s_ok(view(t), 0, BOUND() as nat),
        s_closed_at(view(t), 0),
    ensures s_ok(view(t), 0, SB() as nat),
{
}
