// ---- second part of the prelude for the term-level units: the items that mention `Term` (TRUSTED BASE) -----

// R5: the text of the "stuck" message is not part of C02.
#[verifier::external_body]
pub fn stuck_message<'a>(term: &Term<'a>) -> String { unimplemented!() }


// ---- TRUSTED model of hole cells (`Unifier(Rc<RefCell<Option<Term>>>, shift)`) -----------------------
// A hole is either unresolved or stands for the term stored in its cell.  While the functions under
// contract run, no cell is written (there is no `borrow_mut` in them; evaluation starts after type
// checking has finished), so "the content of a cell" is a function of the cell: `hole_resolved`,
// `hole_view` (the abstract view of the content).  Rule R9 replaces the read `{ c.borrow().clone() }` by
// `hole_content(c)`, whose assumed contract ties the value read to these two functions.
pub uninterp spec fn hole_resolved<'a>(c: Rc<RefCell<Option<Term<'a>>>>) -> bool;
pub uninterp spec fn hole_view<'a>(c: Rc<RefCell<Option<Term<'a>>>>) -> STerm;

#[verifier::external_body]
pub fn hole_content<'a>(c: &Rc<RefCell<Option<Term<'a>>>>) -> (r: Option<Term<'a>>)
    ensures
        r is Some <==> hole_resolved(*c),
        r is Some ==> view(r->Some_0) == hole_view(*c),
{ unimplemented!() }
