// ---- abstract view of term::Term and the de Bruijn spec functions (hand-written, independent of
// /repo's function bodies; see DESIGN.md 4.1 and 5/C11) -------------------------------------------

pub enum Kind {
    Type, Lambda(bool), Pi(bool), App, Let, Integer, Lit(int), Neg,
    Sum, Difference, Product, Quotient, LessThan, LessThanOrEqualTo, EqualTo, GreaterThan, GreaterThanOrEqualTo,
    Boolean, True, False, If,
}

// A uniform rose tree: names and source ranges are erased, everything the properties speak about
// (constructor, operand order, implicit flag, indices, literal values, group size/order) is kept.
pub enum STerm {
    Hole,
    Var(nat),
    Node(Kind, Seq<STerm>),
}

pub open spec fn s0() -> Seq<STerm> { Seq::empty() }
pub open spec fn s1(a: STerm) -> Seq<STerm> { Seq::empty().push(a) }
pub open spec fn s2(a: STerm, b: STerm) -> Seq<STerm> { Seq::empty().push(a).push(b) }
pub open spec fn s3(a: STerm, b: STerm, c: STerm) -> Seq<STerm> { Seq::empty().push(a).push(b).push(c) }

pub open spec fn kind_of(v: Variant) -> Kind {
    match v {
        Unifier(_, _) | Variable(_, _) | Type => Kind::Type,
        Integer => Kind::Integer,
        IntegerLiteral(b) => Kind::Lit(bigint_val(b)),
        Boolean => Kind::Boolean,
        True => Kind::True,
        False => Kind::False,
        Lambda(_, im, _, _) => Kind::Lambda(im),
        Pi(_, im, _, _) => Kind::Pi(im),
        Application(_, _) => Kind::App,
        Sum(_, _) => Kind::Sum,
        Difference(_, _) => Kind::Difference,
        Product(_, _) => Kind::Product,
        Quotient(_, _) => Kind::Quotient,
        LessThan(_, _) => Kind::LessThan,
        LessThanOrEqualTo(_, _) => Kind::LessThanOrEqualTo,
        EqualTo(_, _) => Kind::EqualTo,
        GreaterThan(_, _) => Kind::GreaterThan,
        GreaterThanOrEqualTo(_, _) => Kind::GreaterThanOrEqualTo,
        Negation(_) => Kind::Neg,
        If(_, _, _) => Kind::If,
        Let(_, _) => Kind::Let,
    }
}

// kept opaque so that unfolding `view` stays cheap; only lemma_hole_facts looks inside
#[verifier::opaque]
pub open spec fn view_hole<'a>(c: Rc<RefCell<Option<Term<'a>>>>, s: usize) -> STerm {
    if hole_resolved(c) && s < BOUND() { s_raise(hole_view(c), s as nat) } else { STerm::Hole }
}

pub open spec fn view(t: Term) -> STerm
    decreases t, 1nat
{
    match t.variant {
        // a resolved hole stands for its content raised by the recorded shift; an unresolved hole (or an
        // absurd shift) is a Hole, which every precondition s_ok(..) excludes
        Unifier(c, s) => view_hole(c, s),
        Variable(_, i) => STerm::Var(i as nat),
        _ => STerm::Node(kind_of(t.variant), kids_of(t)),
    }
}

// Children in source order.  A group `x_0 : A_0 = d_0; ...; x_{m-1} : A_{m-1} = d_{m-1}; b` has the
// 2m+1 children [A_0, .., A_{m-1}, d_0, .., d_{m-1}, b].
pub open spec fn kids_of(t: Term) -> Seq<STerm>
    decreases t, 0nat
{
    match t.variant {
        Unifier(_, _) | Variable(_, _) | Type | Integer | IntegerLiteral(_) | Boolean | True | False => s0(),
        Lambda(_, _, a, b) | Pi(_, _, a, b) | Application(a, b) | Sum(a, b) | Difference(a, b) | Product(a, b)
        | Quotient(a, b) | LessThan(a, b) | LessThanOrEqualTo(a, b) | EqualTo(a, b) | GreaterThan(a, b)
        | GreaterThanOrEqualTo(a, b) => s2(view(*a), view(*b)),
        Negation(a) => s1(view(*a)),
        If(a, b, c) => s3(view(*a), view(*b), view(*c)),
        Let(defs, body) =>
            Seq::new((2 * defs@.len() + 1) as nat, |i: int|
                if 0 <= i < defs@.len() { view(*defs@[i].1) }
                else if defs@.len() <= i < 2 * defs@.len() { view(*defs@[i - defs@.len()].2) }
                else { view(*body) }),
    }
}

// No `Unifier` node anywhere in the term itself (cell contents are not looked at).  Only used to keep the
// evaluator's contract strict on hole-free terms: a silent "zonking" step is allowed only where a hole is.
pub open spec fn t_unifier_free(t: Term) -> bool
    decreases t
{
    match t.variant {
        Unifier(_, _) => false,
        Type | Integer | IntegerLiteral(_) | Boolean | True | False | Variable(_, _) => true,
        Lambda(_, _, a, b) | Pi(_, _, a, b) | Application(a, b) | Sum(a, b) | Difference(a, b) | Product(a, b) | Quotient(a, b)
        | LessThan(a, b) | LessThanOrEqualTo(a, b) | EqualTo(a, b) | GreaterThan(a, b)
        | GreaterThanOrEqualTo(a, b) => t_unifier_free(*a) && t_unifier_free(*b),
        Negation(a) => t_unifier_free(*a),
        If(a, b, c) => t_unifier_free(*a) && t_unifier_free(*b) && t_unifier_free(*c),
        Let(defs, body) => {
            &&& forall|i: int| #![trigger defs@[i]] 0 <= i < defs@.len() ==> t_unifier_free(*defs@[i].1) && t_unifier_free(*defs@[i].2)
            &&& t_unifier_free(*body)
        }
    }
}

// view through a reference to an Rc (proof code cannot move a Term out of an Rc)
pub open spec fn vr<'a>(r: &Rc<Term<'a>>) -> STerm { view(**r) }

// Number of binders in scope of child i of a node of kind k with n children.
pub open spec fn binds(k: Kind, n: nat, i: int) -> nat {
    match k {
        Kind::Lambda(_) | Kind::Pi(_) => if i == 1 { 1 } else { 0 },
        Kind::Let => ((n - 1) / 2) as nat,
        _ => 0,
    }
}

// Overflow guard used by the exec contracts: 2^60 (the prelude fixes a 64-bit usize), so that sums of
// a few guarded quantities stay below isize::MAX.  No term with an index, binder depth or group size
// of 2^57 or more fits in a 64-bit address space (every binder is a distinct heap object).
pub open spec fn BOUND() -> int { 0x1000_0000_0000_0000 }

// Well-formedness used as precondition: no hole anywhere, every index below `b`, and the binder
// depth reached from cutoff `c` stays below `b`.
#[verifier::opaque]
pub open spec fn s_ok(t: STerm, c: nat, b: nat) -> bool
    decreases t
{
    match t {
        STerm::Hole => false,
        STerm::Var(i) => i < b && c < b,
        STerm::Node(k, kids) => c < b && forall|i: int| #![trigger kids[i]] 0 <= i < kids.len() ==> s_ok(kids[i], c + binds(k, kids.len(), i), b),
    }
}

// Shifting (TAPL 6.2.1 generalised to n-ary binders and to negative amounts): add d to every
// index >= c, the cutoff growing by the number of binders crossed.  None iff a hole is met or a
// shifted index would fall below its cutoff (the variable would become unbound / captured).
#[verifier::opaque]
pub open spec fn s_shift(t: STerm, c: nat, d: int) -> Option<STerm>
    decreases t
{
    match t {
        STerm::Hole => None,
        STerm::Var(i) => if i >= c { if i + d >= c { Some(STerm::Var((i + d) as nat)) } else { None } } else { Some(t) },
        STerm::Node(k, kids) =>
            if forall|i: int| #![trigger kids[i]] 0 <= i < kids.len() ==> s_shift(kids[i], c + binds(k, kids.len(), i), d) is Some {
                Some(STerm::Node(k, Seq::new(kids.len(), |i: int|
                    if 0 <= i < kids.len() { s_shift(kids[i], c + binds(k, kids.len(), i), d).unwrap() } else { STerm::Hole })))
            } else { None },
    }
}

pub open spec fn s_raise(u: STerm, s: nat) -> STerm {
    match s_shift(u, 0, s as int) { Some(x) => x, None => STerm::Hole }
}

// Opening (TAPL 6.2.4 combined with the removal of the binder): replace index j by u (raised by the
// number of binders crossed, plus s), lower the indices above j by one.
#[verifier::opaque]
pub open spec fn s_open(t: STerm, j: nat, u: STerm, s: nat) -> STerm
    decreases t
{
    match t {
        STerm::Hole => STerm::Hole,
        STerm::Var(i) => if i == j { s_raise(u, s) } else if i > j { STerm::Var((i - 1) as nat) } else { t },
        STerm::Node(k, kids) => STerm::Node(k, Seq::new(kids.len(), |i: int|
            if 0 <= i < kids.len() { s_open(kids[i], j + binds(k, kids.len(), i), u, s + binds(k, kids.len(), i)) } else { STerm::Hole })),
    }
}

// x is a free variable of t relative to cutoff c (i.e. index c + x occurs free at the root).
#[verifier::opaque]
pub open spec fn s_has_fv(t: STerm, c: nat, x: nat) -> bool
    decreases t
{
    match t {
        STerm::Hole => false,
        STerm::Var(i) => i >= c && i - c == x,
        STerm::Node(k, kids) => exists|i: int| #![trigger kids[i]] 0 <= i < kids.len() && s_has_fv(kids[i], c + binds(k, kids.len(), i), x),
    }
}

pub open spec fn def_has_fv<'a>(defs: Seq<(&'a str, Rc<Term<'a>>, Rc<Term<'a>>)>, j: int, c: nat, x: nat) -> bool {
    s_has_fv(view(*defs[j].1), c, x) || s_has_fv(view(*defs[j].2), c, x)
}

// Some definition among the first n of a group has x free (relative to cutoff c).
pub open spec fn defs_fv<'a>(defs: Seq<(&'a str, Rc<Term<'a>>, Rc<Term<'a>>)>, n: nat, c: nat, x: nat) -> bool
    decreases n
{
    if n == 0 { false } else { defs_fv(defs, (n - 1) as nat, c, x) || def_has_fv(defs, n - 1, c, x) }
}

// ---- per-arity unfolding lemmas (broadcast inside the exec functions) -----------------------------

pub broadcast proof fn lemma_ok_var(i: nat, c: nat, b: nat)
    ensures #[trigger] s_ok(STerm::Var(i), c, b) == (i < b && c < b)
{
    reveal(s_ok);
}

pub broadcast proof fn lemma_ok_hole(c: nat, b: nat)
    ensures !(#[trigger] s_ok(STerm::Hole, c, b))
{
    reveal(s_ok);
}

pub broadcast proof fn lemma_shift_var(i: nat, c: nat, d: int)
    ensures #[trigger] s_shift(STerm::Var(i), c, d) == (if i >= c { if i + d >= c { Some(STerm::Var((i + d) as nat)) } else { None } } else { Some(STerm::Var(i)) })
{
    reveal(s_shift);
}

pub broadcast proof fn lemma_shift_hole(c: nat, d: int)
    ensures (#[trigger] s_shift(STerm::Hole, c, d)) is None
{
    reveal(s_shift);
}

pub broadcast proof fn lemma_open_var(i: nat, j: nat, u: STerm, s: nat)
    ensures #[trigger] s_open(STerm::Var(i), j, u, s) == (if i == j { s_raise(u, s) } else if i > j { STerm::Var((i - 1) as nat) } else { STerm::Var(i) })
{
    reveal(s_open);
}

pub broadcast proof fn lemma_open_hole(j: nat, u: STerm, s: nat)
    ensures #[trigger] s_open(STerm::Hole, j, u, s) == STerm::Hole
{
    reveal(s_open);
}

pub broadcast proof fn lemma_fv_var(i: nat, c: nat, x: nat)
    ensures #[trigger] s_has_fv(STerm::Var(i), c, x) == (i >= c && i - c == x)
{
    reveal(s_has_fv);
}

pub broadcast proof fn lemma_fv_hole(c: nat, x: nat)
    ensures !(#[trigger] s_has_fv(STerm::Hole, c, x))
{
    reveal(s_has_fv);
}

// Broadcast groups used by the exec functions (the recursive definitions themselves stay hidden).
pub broadcast group group_ok { lemma_ok_var, lemma_ok_hole, lemma_ok0, lemma_ok1, lemma_ok2, lemma_ok3 }
pub broadcast group group_shift { lemma_shift_var, lemma_shift_hole, lemma_shift0, lemma_shift1, lemma_shift2, lemma_shift3 }
pub broadcast group group_open { lemma_open_var, lemma_open_hole, lemma_open0, lemma_open1, lemma_open2, lemma_open3 }
pub broadcast group group_fv { lemma_fv_var, lemma_fv_hole, lemma_fv0, lemma_fv1, lemma_fv2, lemma_fv3 }

pub broadcast proof fn lemma_ok0(k: Kind, c: nat, b: nat)
    ensures #[trigger] s_ok(STerm::Node(k, s0()), c, b) == (c < b)
{
    reveal(s_ok); reveal(s_shift); reveal(s_open); reveal(s_has_fv);
}

pub broadcast proof fn lemma_ok1(k: Kind, a: STerm, c: nat, b: nat)
    ensures #[trigger] s_ok(STerm::Node(k, s1(a)), c, b) == (c < b && s_ok(a, c + binds(k, 1, 0), b))
{
    reveal(s_ok); reveal(s_shift); reveal(s_open); reveal(s_has_fv);
    let kids = s1(a);
    assert(kids[0] == a);
    assert(kids.len() == 1);
    assert(STerm::Node(k, kids)->Node_1 == kids);
    if s_ok(STerm::Node(k, kids), c, b) {
        assert(s_ok(kids[0], c + binds(k, kids.len(), 0), b));
    }
    if c < b && s_ok(a, c + binds(k, 1, 0), b) {
        assert forall|i: int| 0 <= i < kids.len() implies s_ok(#[trigger] kids[i], c + binds(k, kids.len(), i), b) by { assert(i == 0); }
    }
}

pub broadcast proof fn lemma_ok2(k: Kind, a: STerm, a2: STerm, c: nat, b: nat)
    ensures #[trigger] s_ok(STerm::Node(k, s2(a, a2)), c, b) == (c < b && s_ok(a, c + binds(k, 2, 0), b) && s_ok(a2, c + binds(k, 2, 1), b))
{
    reveal(s_ok); reveal(s_shift); reveal(s_open); reveal(s_has_fv);
    let kids = s2(a, a2);
    assert(kids[0] == a);
    assert(kids[1] == a2);
    assert(kids.len() == 2);
    assert(STerm::Node(k, kids)->Node_1 == kids);
    if s_ok(STerm::Node(k, kids), c, b) {
        assert(s_ok(kids[0], c + binds(k, kids.len(), 0), b));
        assert(s_ok(kids[1], c + binds(k, kids.len(), 1), b));
    }
    if c < b && s_ok(a, c + binds(k, 2, 0), b) && s_ok(a2, c + binds(k, 2, 1), b) {
        assert forall|i: int| 0 <= i < kids.len() implies s_ok(#[trigger] kids[i], c + binds(k, kids.len(), i), b) by { assert(i == 0 || i == 1); }
    }
}

pub broadcast proof fn lemma_ok3(k: Kind, a: STerm, a2: STerm, a3: STerm, c: nat, b: nat)
    ensures #[trigger] s_ok(STerm::Node(k, s3(a, a2, a3)), c, b) == (c < b && s_ok(a, c + binds(k, 3, 0), b) && s_ok(a2, c + binds(k, 3, 1), b) && s_ok(a3, c + binds(k, 3, 2), b))
{
    reveal(s_ok); reveal(s_shift); reveal(s_open); reveal(s_has_fv);
    let kids = s3(a, a2, a3);
    assert(kids[0] == a);
    assert(kids[1] == a2);
    assert(kids[2] == a3);
    assert(kids.len() == 3);
    assert(STerm::Node(k, kids)->Node_1 == kids);
    if s_ok(STerm::Node(k, kids), c, b) {
        assert(s_ok(kids[0], c + binds(k, kids.len(), 0), b));
        assert(s_ok(kids[1], c + binds(k, kids.len(), 1), b));
        assert(s_ok(kids[2], c + binds(k, kids.len(), 2), b));
    }
    if c < b && s_ok(a, c + binds(k, 3, 0), b) && s_ok(a2, c + binds(k, 3, 1), b) && s_ok(a3, c + binds(k, 3, 2), b) {
        assert forall|i: int| 0 <= i < kids.len() implies s_ok(#[trigger] kids[i], c + binds(k, kids.len(), i), b) by { assert(i == 0 || i == 1 || i == 2); }
    }
}

pub broadcast proof fn lemma_shift0(k: Kind, c: nat, d: int)
    ensures #[trigger] s_shift(STerm::Node(k, s0()), c, d) == Some(STerm::Node(k, s0()))
{
    reveal(s_ok); reveal(s_shift); reveal(s_open); reveal(s_has_fv);
    let r = s_shift(STerm::Node(k, s0()), c, d);
    assert(r.unwrap()->Node_1 =~= s0());
}

pub broadcast proof fn lemma_shift1(k: Kind, a: STerm, c: nat, d: int)
    ensures #[trigger] s_shift(STerm::Node(k, s1(a)), c, d) == (match s_shift(a, c + binds(k, 1, 0), d) {
        Some(x) => Some(STerm::Node(k, s1(x))),
        None => None })
{
    reveal(s_ok); reveal(s_shift); reveal(s_open); reveal(s_has_fv);
    let kids = s1(a);
    assert(kids[0] == a);
    assert(kids.len() == 1);
    assert(s_shift(kids[0], c + binds(k, kids.len(), 0), d) == s_shift(a, c + binds(k, 1, 0), d));
    let r = s_shift(STerm::Node(k, kids), c, d);
    if s_shift(a, c + binds(k, 1, 0), d) is Some {
        assert forall|i: int| 0 <= i < kids.len() implies s_shift(#[trigger] kids[i], c + binds(k, kids.len(), i), d) is Some by { assert(i == 0); }
        assert(r is Some);
        assert(r.unwrap()->Node_1 =~= s1(s_shift(a, c + binds(k, 1, 0), d).unwrap()));
    }
}

pub broadcast proof fn lemma_shift2(k: Kind, a: STerm, b: STerm, c: nat, d: int)
    ensures #[trigger] s_shift(STerm::Node(k, s2(a, b)), c, d) == (match (s_shift(a, c + binds(k, 2, 0), d), s_shift(b, c + binds(k, 2, 1), d)) {
        (Some(x), Some(y)) => Some(STerm::Node(k, s2(x, y))),
        _ => None })
{
    reveal(s_ok); reveal(s_shift); reveal(s_open); reveal(s_has_fv);
    let kids = s2(a, b);
    assert(kids[0] == a);
    assert(kids[1] == b);
    assert(kids.len() == 2);
    assert(s_shift(kids[0], c + binds(k, kids.len(), 0), d) == s_shift(a, c + binds(k, 2, 0), d));
    assert(s_shift(kids[1], c + binds(k, kids.len(), 1), d) == s_shift(b, c + binds(k, 2, 1), d));
    let r = s_shift(STerm::Node(k, kids), c, d);
    if s_shift(a, c + binds(k, 2, 0), d) is Some && s_shift(b, c + binds(k, 2, 1), d) is Some {
        assert forall|i: int| 0 <= i < kids.len() implies s_shift(#[trigger] kids[i], c + binds(k, kids.len(), i), d) is Some by { assert(i == 0 || i == 1); }
        assert(r is Some);
        assert(r.unwrap()->Node_1 =~= s2(s_shift(a, c + binds(k, 2, 0), d).unwrap(), s_shift(b, c + binds(k, 2, 1), d).unwrap()));
    }
}

pub broadcast proof fn lemma_shift3(k: Kind, a: STerm, b: STerm, e: STerm, c: nat, d: int)
    ensures #[trigger] s_shift(STerm::Node(k, s3(a, b, e)), c, d) == (match (s_shift(a, c + binds(k, 3, 0), d), s_shift(b, c + binds(k, 3, 1), d), s_shift(e, c + binds(k, 3, 2), d)) {
        (Some(x), Some(y), Some(z)) => Some(STerm::Node(k, s3(x, y, z))),
        _ => None })
{
    reveal(s_ok); reveal(s_shift); reveal(s_open); reveal(s_has_fv);
    let kids = s3(a, b, e);
    assert(kids[0] == a);
    assert(kids[1] == b);
    assert(kids[2] == e);
    assert(kids.len() == 3);
    assert(s_shift(kids[0], c + binds(k, kids.len(), 0), d) == s_shift(a, c + binds(k, 3, 0), d));
    assert(s_shift(kids[1], c + binds(k, kids.len(), 1), d) == s_shift(b, c + binds(k, 3, 1), d));
    assert(s_shift(kids[2], c + binds(k, kids.len(), 2), d) == s_shift(e, c + binds(k, 3, 2), d));
    let r = s_shift(STerm::Node(k, kids), c, d);
    if s_shift(a, c + binds(k, 3, 0), d) is Some && s_shift(b, c + binds(k, 3, 1), d) is Some && s_shift(e, c + binds(k, 3, 2), d) is Some {
        assert forall|i: int| 0 <= i < kids.len() implies s_shift(#[trigger] kids[i], c + binds(k, kids.len(), i), d) is Some by { assert(i == 0 || i == 1 || i == 2); }
        assert(r is Some);
        assert(r.unwrap()->Node_1 =~= s3(s_shift(a, c + binds(k, 3, 0), d).unwrap(), s_shift(b, c + binds(k, 3, 1), d).unwrap(), s_shift(e, c + binds(k, 3, 2), d).unwrap()));
    }
}

// General node lemmas for shifting (used for definition groups, whose arity is not fixed).
pub proof fn lemma_shift_node(k: Kind, kids: Seq<STerm>, rkids: Seq<STerm>, c: nat, d: int)
    requires
        kids.len() == rkids.len(),
        forall|i: int| 0 <= i < kids.len() ==> s_shift(#[trigger] kids[i], c + binds(k, kids.len(), i), d) == Some(rkids[i]),
    ensures
        s_shift(STerm::Node(k, kids), c, d) == Some(STerm::Node(k, rkids)),
{
    reveal(s_ok); reveal(s_shift); reveal(s_open); reveal(s_has_fv);
    let r = s_shift(STerm::Node(k, kids), c, d);
    assert(r is Some);
    assert(r.unwrap()->Node_1 =~= rkids);
}

pub proof fn lemma_shift_node_none(k: Kind, kids: Seq<STerm>, c: nat, d: int, i: int)
    requires
        0 <= i < kids.len(),
        s_shift(kids[i], c + binds(k, kids.len(), i), d) is None,
    ensures
        s_shift(STerm::Node(k, kids), c, d) is None,
{
    reveal(s_shift);
    assert(STerm::Node(k, kids)->Node_1 == kids);
}

pub broadcast proof fn lemma_open0(k: Kind, j: nat, u: STerm, s: nat)
    ensures #[trigger] s_open(STerm::Node(k, s0()), j, u, s) == STerm::Node(k, s0())
{
    reveal(s_ok); reveal(s_shift); reveal(s_open); reveal(s_has_fv);
    assert(s_open(STerm::Node(k, s0()), j, u, s)->Node_1 =~= s0());
}

pub broadcast proof fn lemma_open1(k: Kind, a: STerm, j: nat, u: STerm, s: nat)
    ensures #[trigger] s_open(STerm::Node(k, s1(a)), j, u, s) == STerm::Node(k, s1(s_open(a, j + binds(k, 1, 0), u, s + binds(k, 1, 0))))
{
    reveal(s_ok); reveal(s_shift); reveal(s_open); reveal(s_has_fv);
    let kids = s1(a);
    assert(kids[0] == a);
    assert(s_open(STerm::Node(k, kids), j, u, s)->Node_1 =~= s1(s_open(a, j + binds(k, 1, 0), u, s + binds(k, 1, 0))));
}

pub broadcast proof fn lemma_open2(k: Kind, a: STerm, b: STerm, j: nat, u: STerm, s: nat)
    ensures #[trigger] s_open(STerm::Node(k, s2(a, b)), j, u, s) == STerm::Node(k, s2(
        s_open(a, j + binds(k, 2, 0), u, s + binds(k, 2, 0)),
        s_open(b, j + binds(k, 2, 1), u, s + binds(k, 2, 1))))
{
    reveal(s_ok); reveal(s_shift); reveal(s_open); reveal(s_has_fv);
    let kids = s2(a, b);
    assert(kids[0] == a);
    assert(kids[1] == b);
    assert(s_open(STerm::Node(k, kids), j, u, s)->Node_1 =~= s2(
        s_open(a, j + binds(k, 2, 0), u, s + binds(k, 2, 0)),
        s_open(b, j + binds(k, 2, 1), u, s + binds(k, 2, 1))));
}

pub broadcast proof fn lemma_open3(k: Kind, a: STerm, b: STerm, e: STerm, j: nat, u: STerm, s: nat)
    ensures #[trigger] s_open(STerm::Node(k, s3(a, b, e)), j, u, s) == STerm::Node(k, s3(
        s_open(a, j + binds(k, 3, 0), u, s + binds(k, 3, 0)),
        s_open(b, j + binds(k, 3, 1), u, s + binds(k, 3, 1)),
        s_open(e, j + binds(k, 3, 2), u, s + binds(k, 3, 2))))
{
    reveal(s_ok); reveal(s_shift); reveal(s_open); reveal(s_has_fv);
    let kids = s3(a, b, e);
    assert(kids[0] == a);
    assert(kids[1] == b);
    assert(kids[2] == e);
    assert(s_open(STerm::Node(k, kids), j, u, s)->Node_1 =~= s3(
        s_open(a, j + binds(k, 3, 0), u, s + binds(k, 3, 0)),
        s_open(b, j + binds(k, 3, 1), u, s + binds(k, 3, 1)),
        s_open(e, j + binds(k, 3, 2), u, s + binds(k, 3, 2))));
}

pub proof fn lemma_open_node(k: Kind, kids: Seq<STerm>, rkids: Seq<STerm>, j: nat, u: STerm, s: nat)
    requires
        kids.len() == rkids.len(),
        forall|i: int| 0 <= i < kids.len() ==> s_open(#[trigger] kids[i], j + binds(k, kids.len(), i), u, s + binds(k, kids.len(), i)) == rkids[i],
    ensures
        s_open(STerm::Node(k, kids), j, u, s) == STerm::Node(k, rkids),
{
    reveal(s_ok); reveal(s_shift); reveal(s_open); reveal(s_has_fv);
    assert(s_open(STerm::Node(k, kids), j, u, s)->Node_1 =~= rkids);
}

pub broadcast proof fn lemma_fv0(k: Kind, c: nat, x: nat)
    ensures !(#[trigger] s_has_fv(STerm::Node(k, s0()), c, x))
{
    reveal(s_ok); reveal(s_shift); reveal(s_open); reveal(s_has_fv);
}

pub broadcast proof fn lemma_fv1(k: Kind, a: STerm, c: nat, x: nat)
    ensures #[trigger] s_has_fv(STerm::Node(k, s1(a)), c, x) == s_has_fv(a, c + binds(k, 1, 0), x)
{
    reveal(s_ok); reveal(s_shift); reveal(s_open); reveal(s_has_fv);
    let kids = s1(a);
    assert(kids[0] == a);
    assert(STerm::Node(k, kids)->Node_1 == kids);
    if s_has_fv(a, c + binds(k, 1, 0), x) { assert(s_has_fv(kids[0], c + binds(k, kids.len(), 0), x)); }
}

pub broadcast proof fn lemma_fv2(k: Kind, a: STerm, b: STerm, c: nat, x: nat)
    ensures #[trigger] s_has_fv(STerm::Node(k, s2(a, b)), c, x) == (s_has_fv(a, c + binds(k, 2, 0), x) || s_has_fv(b, c + binds(k, 2, 1), x))
{
    reveal(s_ok); reveal(s_shift); reveal(s_open); reveal(s_has_fv);
    let kids = s2(a, b);
    assert(kids[0] == a);
    assert(kids[1] == b);
    assert(STerm::Node(k, kids)->Node_1 == kids);
    if s_has_fv(a, c + binds(k, 2, 0), x) { assert(s_has_fv(kids[0], c + binds(k, kids.len(), 0), x)); }
    if s_has_fv(b, c + binds(k, 2, 1), x) { assert(s_has_fv(kids[1], c + binds(k, kids.len(), 1), x)); }
}

pub broadcast proof fn lemma_fv3(k: Kind, a: STerm, b: STerm, e: STerm, c: nat, x: nat)
    ensures #[trigger] s_has_fv(STerm::Node(k, s3(a, b, e)), c, x) == (s_has_fv(a, c + binds(k, 3, 0), x) || s_has_fv(b, c + binds(k, 3, 1), x) || s_has_fv(e, c + binds(k, 3, 2), x))
{
    reveal(s_ok); reveal(s_shift); reveal(s_open); reveal(s_has_fv);
    let kids = s3(a, b, e);
    assert(kids[0] == a);
    assert(kids[1] == b);
    assert(kids[2] == e);
    assert(STerm::Node(k, kids)->Node_1 == kids);
    if s_has_fv(a, c + binds(k, 3, 0), x) { assert(s_has_fv(kids[0], c + binds(k, kids.len(), 0), x)); }
    if s_has_fv(b, c + binds(k, 3, 1), x) { assert(s_has_fv(kids[1], c + binds(k, kids.len(), 1), x)); }
    if s_has_fv(e, c + binds(k, 3, 2), x) { assert(s_has_fv(kids[2], c + binds(k, kids.len(), 2), x)); }
}

// Facts about the children of a definition group, stated once.
pub proof fn lemma_let_kids<'a>(t: Term<'a>, defs: Vec<(&'a str, Rc<Term<'a>>, Rc<Term<'a>>)>, body: Rc<Term<'a>>)
    requires
        t.variant == Let(defs, body),
    ensures
        view(t) == STerm::Node(Kind::Let, kids_of(t)),
        kids_of(t).len() == 2 * defs@.len() + 1,
        forall|i: int| binds(Kind::Let, kids_of(t).len(), i) == defs@.len(),
        forall|j: int| 0 <= j < defs@.len() ==> #[trigger] kids_of(t)[j] == view(*defs@[j].1),
        forall|j: int| 0 <= j < defs@.len() ==> #[trigger] kids_of(t)[j + defs@.len()] == view(*defs@[j].2),
        kids_of(t)[2 * defs@.len() as int] == view(*body),
{
    reveal(s_ok); reveal(s_shift); reveal(s_open); reveal(s_has_fv);
}

// The s_ok unfolding for a definition group.
pub proof fn lemma_ok_let<'a>(t: Term<'a>, defs: Vec<(&'a str, Rc<Term<'a>>, Rc<Term<'a>>)>, body: Rc<Term<'a>>, c: nat, b: nat)
    requires
        t.variant == Let(defs, body),
        s_ok(view(t), c, b),
    ensures
        c + defs@.len() < b,
        forall|j: int| 0 <= j < defs@.len() ==> s_ok(view(*(#[trigger] defs@[j]).1), c + defs@.len(), b) && s_ok(view(*defs@[j].2), c + defs@.len(), b),
        s_ok(view(*body), c + defs@.len(), b),
{
    reveal(s_ok); reveal(s_shift); reveal(s_open); reveal(s_has_fv);
    lemma_let_kids(t, defs, body);
    let kids = kids_of(t);
    let m = defs@.len() as int;
    assert(view(t)->Node_1 == kids);
    assert(s_ok(kids[2 * m], c + binds(Kind::Let, kids.len(), 2 * m), b));
    assert forall|j: int| 0 <= j < m implies s_ok(view(*(#[trigger] defs@[j]).1), c + defs@.len(), b) && s_ok(view(*defs@[j].2), c + defs@.len(), b) by {
        assert(s_ok(kids[j], c + binds(Kind::Let, kids.len(), j), b));
        assert(s_ok(kids[j + m], c + binds(Kind::Let, kids.len(), j + m), b));
    }
}

pub proof fn lemma_defs_fv_iff<'a>(defs: Seq<(&'a str, Rc<Term<'a>>, Rc<Term<'a>>)>, n: nat, c: nat, x: nat)
    ensures defs_fv(defs, n, c, x) <==> exists|j: int| 0 <= j < n && #[trigger] def_has_fv(defs, j, c, x)
    decreases n
{
    reveal(s_ok); reveal(s_shift); reveal(s_open); reveal(s_has_fv);
    if n > 0 {
        lemma_defs_fv_iff(defs, (n - 1) as nat, c, x);
        if defs_fv(defs, (n - 1) as nat, c, x) {
            let j = choose|j: int| 0 <= j < n - 1 && #[trigger] def_has_fv(defs, j, c, x);
            assert(0 <= j < n && def_has_fv(defs, j, c, x));
        }
        if def_has_fv(defs, n - 1, c, x) {
            assert(0 <= n - 1 < n && def_has_fv(defs, n - 1, c, x));
        }
        if exists|j: int| 0 <= j < n && #[trigger] def_has_fv(defs, j, c, x) {
            let j = choose|j: int| 0 <= j < n && #[trigger] def_has_fv(defs, j, c, x);
            if j < n - 1 { assert(0 <= j < n - 1 && def_has_fv(defs, j, c, x)); }
        }
    }
}

// The s_has_fv unfolding for a definition group.
pub proof fn lemma_fv_let<'a>(t: Term<'a>, defs: Vec<(&'a str, Rc<Term<'a>>, Rc<Term<'a>>)>, body: Rc<Term<'a>>, c: nat, x: nat)
    requires
        t.variant == Let(defs, body),
    ensures
        s_has_fv(view(t), c, x) <==> (defs_fv(defs@, defs@.len(), c + defs@.len(), x) || s_has_fv(view(*body), c + defs@.len(), x)),
{
    reveal(s_ok); reveal(s_shift); reveal(s_open); reveal(s_has_fv);
    lemma_let_kids(t, defs, body);
    let kids = kids_of(t);
    let m = defs@.len() as int;
    let cc = c + defs@.len();
    assert(view(t)->Node_1 == kids);
    lemma_defs_fv_iff(defs@, defs@.len(), cc, x);
    if s_has_fv(view(t), c, x) {
        let i = choose|i: int| #![trigger kids[i]] 0 <= i < kids.len() && s_has_fv(kids[i], c + binds(Kind::Let, kids.len(), i), x);
        if i < m { assert(kids[i] == view(*defs@[i].1)); assert(def_has_fv(defs@, i, cc, x)); }
        else if i < 2 * m { assert(kids[(i - m) + m] == view(*defs@[i - m].2)); assert(def_has_fv(defs@, i - m, cc, x)); }
        else { assert(i == 2 * m); }
    }
    if defs_fv(defs@, defs@.len(), cc, x) {
        let j = choose|j: int| 0 <= j < m && #[trigger] def_has_fv(defs@, j, cc, x);
        assert(s_has_fv(view(*defs@[j].1), cc, x) ==> s_has_fv(kids[j], c + binds(Kind::Let, kids.len(), j), x));
        assert(s_has_fv(view(*defs@[j].2), cc, x) ==> s_has_fv(kids[j + m], c + binds(Kind::Let, kids.len(), j + m), x));
    }
    assert(s_has_fv(view(*body), cc, x) ==> s_has_fv(kids[2 * m], c + binds(Kind::Let, kids.len(), 2 * m), x));
}
