// ---- vacuity guards: every precondition is satisfiable (Verus must PROVE the `requires` of each
// function under contract at these concrete calls) --------------------------------------------------
fn witness_u1() {
    broadcast use group_ok;
    let v0 = Term { source_range: None, variant: Variable("x", 0) };
    let v1 = Term { source_range: None, variant: Variable("y", 1) };
    let ty = Term { source_range: None, variant: Type };
    let bd = Term { source_range: None, variant: Variable("x", 0) };
    assert(view(ty) == STerm::Node(Kind::Type, s0()));
    assert(view(bd) == STerm::Var(0));
    let lam = Term { source_range: None, variant: Lambda("x", false, Rc::new(ty), Rc::new(bd)) };
    assert(view(lam) == STerm::Node(Kind::Lambda(false), s2(view(ty), view(bd))));
    let r1 = signed_shift(&lam, 0, 1);
    assert(r1 is Some);
    let r2 = unsigned_shift(&v1, 0, 2);
    let r3 = open(&v0, 0, &lam, 0);
    let mut set: HashSet<usize> = HashSet::new();
    free_variables(&v1, 0, &mut set);
}

// Must-fail canaries for the quick tier: each asserts the NEGATION of something the contract
// implies at a concrete call.  The run is healthy only if every one of these fails (a contradictory
// precondition, or a postcondition that is `false`, would make them pass).
fn canary_signed_shift() {
    broadcast use group_ok;
    let v1 = Term { source_range: None, variant: Variable("y", 1) };
    let r = signed_shift(&v1, 0, 1);
    assert(r is None);
}
fn canary_unsigned_shift() {
    broadcast use {group_ok, group_shift};
    let v1 = Term { source_range: None, variant: Variable("y", 1) };
    let r = unsigned_shift(&v1, 0, 2);
    assert(view(r) != STerm::Var(3));
}
fn canary_open() {
    broadcast use {group_ok, group_open};
    let v0 = Term { source_range: None, variant: Variable("x", 0) };
    let v5 = Term { source_range: None, variant: Variable("z", 5) };
    let r = open(&v5, 0, &v0, 0);
    assert(view(r) != STerm::Var(4));
}
fn canary_free_variables() {
    broadcast use {group_ok, group_fv};
    let v1 = Term { source_range: None, variant: Variable("y", 1) };
    let mut set: HashSet<usize> = HashSet::new();
    free_variables(&v1, 0, &mut set);
    assert(!set@.contains(1usize));
}

fn witness_u2() {
    broadcast use group_ok;
    let t = Term { source_range: None, variant: True };
    let a = Term { source_range: None, variant: Type };
    let b = Term { source_range: None, variant: Integer };
    assert(view(t) == STerm::Node(Kind::True, s0()));
    assert(view(a) == STerm::Node(Kind::Type, s0()));
    assert(view(b) == STerm::Node(Kind::Integer, s0()));
    let v = is_value(&t);
    let cond = Term { source_range: None, variant: If(Rc::new(t), Rc::new(a), Rc::new(b)) };
    assert(view(cond) == STerm::Node(Kind::If, s3(view(t), view(a), view(b))));
    let s = step(&cond);
    proof { reveal_with_fuel(t_unifier_free, 3); assert(t_unifier_free(cond)); }
    let s2 = step_strict(&cond);
    proof {
        broadcast use group_fv;
        assert forall|x: nat| !#[trigger] s_has_fv(view(cond), 0, x) by {}
    }
    let e = evaluate(&cond);
}
fn canary_is_value() {
    let t = Term { source_range: None, variant: True };
    let v = is_value(&t);
    assert(!v);
}
fn canary_step() {
    broadcast use {group_ok, group_step};
    let t = Term { source_range: None, variant: True };
    let a = Term { source_range: None, variant: Type };
    let b = Term { source_range: None, variant: Integer };
    assert(view(t) == STerm::Node(Kind::True, s0()));
    assert(view(a) == STerm::Node(Kind::Type, s0()));
    assert(view(b) == STerm::Node(Kind::Integer, s0()));
    let cond = Term { source_range: None, variant: If(Rc::new(t), Rc::new(a), Rc::new(b)) };
    assert(view(cond) == STerm::Node(Kind::If, s3(view(t), view(a), view(b))));
    let s = step(&cond);
    proof { reveal(s_step01); }
    assert(s is None || (view(s->Some_0) != view(a) && view(s->Some_0) != view(cond)));
}
fn canary_evaluate() {
    broadcast use group_ok;
    let t = Term { source_range: None, variant: True };
    assert(view(t) == STerm::Node(Kind::True, s0()));
    proof {
        broadcast use group_fv;
        assert forall|x: nat| !#[trigger] s_has_fv(view(t), 0, x) by {}
    }
    let e = evaluate(&t);
    assert(e is Err ==> false);
    assert(e is Ok ==> !s_value(view(e->Ok_0)));
}

fn canary_step_strict() {
    broadcast use {group_ok, group_step};
    let t = Term { source_range: None, variant: True };
    let a = Term { source_range: None, variant: Type };
    let b = Term { source_range: None, variant: Integer };
    assert(view(t) == STerm::Node(Kind::True, s0()));
    assert(view(a) == STerm::Node(Kind::Type, s0()));
    assert(view(b) == STerm::Node(Kind::Integer, s0()));
    let cond = Term { source_range: None, variant: If(Rc::new(t), Rc::new(a), Rc::new(b)) };
    assert(view(cond) == STerm::Node(Kind::If, s3(view(t), view(a), view(b))));
    proof { reveal_with_fuel(t_unifier_free, 3); assert(t_unifier_free(cond)); }
    let s = step_strict(&cond);
    assert(s is None || view(s->Some_0) != view(a));
}
