// ---- vacuity guards for U4 ---------------------------------------------------------------------------
fn witness_u4() {
    broadcast use group_parser;
    let sr = SourceRange { start: 0, end: 1 };
    let f = Term { source_range: sr, group: false, variant: Variant::Type, errors: vec![] };
    let x = Term { source_range: sr, group: false, variant: Variant::Integer, errors: vec![] };
    assert(pview(f) == PTerm { kind: PKind::Type, group: false, kids: p0() });
    assert(pview(x) == PTerm { kind: PKind::Integer, group: false, kids: p0() });
    let s = span(sr, sr);
    let r0 = reassociate_applications(None, &f);
    let app = Term { source_range: sr, group: false, variant: Variant::Application(Rc::new(f), Rc::new(x)), errors: vec![] };
    assert(pview(app) == PTerm { kind: PKind::App, group: false, kids: p2(pview(f), pview(x)) });
    let r1 = reassociate_applications(None, &app);
    let r2 = reassociate_products_and_quotients(None, &app);
    let r3 = reassociate_sums_and_differences(None, &app);
    let r4 = reassociate_applications(Some(r1), &app);
}

// must-fail canaries: the negation of what the contract implies at a concrete call
fn canary_reassociate_applications() {
    broadcast use group_parser;
    let sr = SourceRange { start: 0, end: 1 };
    let f = Term { source_range: sr, group: false, variant: Variant::Type, errors: vec![] };
    assert(pview(f) == PTerm { kind: PKind::Type, group: false, kids: p0() });
    let r0 = reassociate_applications(None, &f);
    assert(p_norm(Class::Apps, pview(r0)).kind != PKind::Type);
}
fn canary_reassociate_products_and_quotients() {
    broadcast use group_parser;
    let sr = SourceRange { start: 0, end: 1 };
    let f = Term { source_range: sr, group: false, variant: Variant::Type, errors: vec![] };
    assert(pview(f) == PTerm { kind: PKind::Type, group: false, kids: p0() });
    let r0 = reassociate_products_and_quotients(None, &f);
    assert(p_norm(Class::Muls, pview(r0)).kind != PKind::Type);
}
fn canary_reassociate_sums_and_differences() {
    broadcast use group_parser;
    let sr = SourceRange { start: 0, end: 1 };
    let f = Term { source_range: sr, group: false, variant: Variant::Type, errors: vec![] };
    assert(pview(f) == PTerm { kind: PKind::Type, group: false, kids: p0() });
    let r0 = reassociate_sums_and_differences(None, &f);
    assert(p_norm(Class::Adds, pview(r0)).kind != PKind::Type);
}
fn canary_span() {
    let s = span(SourceRange { start: 0, end: 1 }, SourceRange { start: 2, end: 3 });
    assert(s.end != 3);
}
