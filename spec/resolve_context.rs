// ---- the name -> depth map, modelled by stubs with HashMap's method names and argument types (TRUSTED) ----
// R2: `HashMap<&'a str, usize>` -> `Context<'a>`; no call site is rewritten.
#[verifier::external_body]
pub struct Context<'a> { _p: std::marker::PhantomData<&'a u8> }

pub uninterp spec fn ctx_map<'a>(c: Context<'a>) -> Env;

impl<'a> Context<'a> {
    #[verifier::external_body]
    fn get(&self, k: &&'a str) -> (r: Option<&usize>)
        ensures
            r is Some <==> ctx_map(*self).dom().contains((**k)@),
            r is Some ==> *r->Some_0 == ctx_map(*self)[(**k)@],
    { unimplemented!() }

    #[verifier::external_body]
    fn contains_key(&self, k: &str) -> (r: bool)
        ensures r == ctx_map(*self).dom().contains(k@),
    { unimplemented!() }

    #[verifier::external_body]
    fn insert(&mut self, k: &'a str, v: usize) -> (r: Option<usize>)
        ensures ctx_map(*final(self)) == ctx_map(*old(self)).insert(k@, v),
    { unimplemented!() }

    #[verifier::external_body]
    fn remove(&mut self, k: &str) -> (r: Option<usize>)
        ensures ctx_map(*final(self)) == ctx_map(*old(self)).remove(k@),
    { unimplemented!() }
}

// R9: `Rc::new(RefCell::new(None))` -> a fresh, unresolved hole
#[verifier::external_body]
fn fresh_hole<'a>() -> (r: Rc<RefCell<Option<term::Term<'a>>>>)
    ensures !term::hole_resolved(r),
{ unimplemented!() }

// `variable.name != PLACEHOLDER_VARIABLE`: string comparison
spec fn placeholder() -> Seq<char> { PLACEHOLDER_VARIABLE@ }
