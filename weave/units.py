"""Builds the woven Verus files from /repo's current working tree.

core.rs   = prelude + real term::{Term, Variant}, error::SourceRange + spec library
            + real de_bruijn::{signed_shift, unsigned_shift, open}, term::free_variables   (U1)
            + real evaluator::{is_value, step, evaluate}                                     (U2)
parser.rs = real parser::{Term, Variant, SourceVariable, ProductOrQuotient, SumOrDifference, span,
            reassociate_*}                                                                   (U4)
"""
import os
import re

from weave import LostAnchor, Source, Woven, sections, guard_bindings

HERE = os.path.dirname(os.path.abspath(__file__))
VERIF = os.path.dirname(HERE)

VARIANT_IMPORT = """use crate::Variant::{
    Application, Boolean, Difference, EqualTo, False, GreaterThan, GreaterThanOrEqualTo, If,
    Integer, IntegerLiteral, Lambda, LessThan, LessThanOrEqualTo, Let, Negation, Pi, Product,
    Quotient, Sum, True, Type, Unifier, Variable,
};
"""

CLONE_IMPLS = """// R1: derived Clone replaced by an assumed specification (Rust's derive semantics).
impl<'a> Clone for Term<'a> {
    #[verifier::external_body]
    fn clone(&self) -> (r: Self) ensures r == *self { unimplemented!() }
}
impl<'a> Clone for Variant<'a> {
    #[verifier::external_body]
    fn clone(&self) -> (r: Self) ensures r == *self { unimplemented!() }
}
"""


def read(rel):
    with open(os.path.join(VERIF, rel), encoding="utf-8") as f:
        return f.read()


def new_log():
    return {"items": [], "annotations": [], "rewrites": [], "dropped": []}


def strip_clippy(w):
    """`#[allow(clippy::..)]` lines inside an item are dropped (lint attributes only)."""
    keep = []
    for l in w.lines:
        if re.match(r"^\s*#\[allow\(clippy::[a-z_]+\)\]$", l):
            w.log["dropped"].append({"site": f"{w.src.rel} {w.kind} {w.name}", "text": l.strip(), "why": "lint attribute"})
        else:
            keep.append(l)
    w.lines = keep


CANONICAL_PARAMS = {
    "signed_shift": ["term", "cutoff", "amount"], "unsigned_shift": ["term", "cutoff", "amount"],
    "open": ["term_to_open", "index_to_replace", "term_to_insert", "shift_amount"],
    "free_variables": ["term", "cutoff", "variables"], "is_value": ["term"], "step": ["term"], "evaluate": ["term"],
    "reassociate_applications": ["acc", "term"], "reassociate_products_and_quotients": ["acc", "term"],
    "reassociate_sums_and_differences": ["acc", "term"], "span": None, "error_term": ["tokens", "position", "expectation"],
    "resolve_variables": ["source_path", "source_contents", "term", "depth", "context", "errors"],
    "parse": ["source_path", "source_contents", "tokens", "context"],
}


def canonical_params(w):
    """R20: the sidecars name the parameters of a function under contract; if the code has renamed one, the woven
    copy is alpha-renamed back (whole words, only when the canonical name is not otherwise used in the function)."""
    want = CANONICAL_PARAMS.get(w.name) or (["cache", "tokens", "start"] if w.name.startswith("parse_") else None)
    if not want:
        return
    h = w.header_end()
    head = " ".join(l.strip() for l in w.lines[: h + 1])
    a = head.find("(")
    depth, b = 0, None
    for k in range(a, len(head)):
        depth += head[k] in "(<[" 
        depth -= head[k] in ")>]"
        if head[k] == "-" and head[k + 1 : k + 2] == ">":
            depth += 1          # the `>` of `->` is not a closing bracket
        if depth == 0:
            b = k
            break
    if b is None:
        raise LostAnchor(f"{w.src.rel} fn {w.name}: cannot parse the parameter list")
    parts, depth, cur = [], 0, ""
    for ch in head[a + 1 : b]:
        depth += ch in "(<["
        depth -= ch in ")>]"
        if ch == "," and depth == 0:
            parts.append(cur); cur = ""
        else:
            cur += ch
    if cur.strip():
        parts.append(cur)
    have = [re.sub(r"^mut ", "", p.split(":")[0].strip()) for p in parts]
    if len(have) != len(want):
        raise LostAnchor(f"{w.src.rel} fn {w.name}: {len(have)} parameters, the sidecar expects {len(want)}")
    for actual, canon in zip(have, want):
        if actual == canon:
            continue
        if any(re.search(r"\b%s\b" % re.escape(canon), l.split("//")[0]) for l in w.lines):
            raise LostAnchor(f"{w.src.rel} fn {w.name}: parameter `{actual}` cannot be renamed back to `{canon}` (that name is used otherwise)")
        n = 0
        for i, l in enumerate(w.lines):
            new = re.sub(r"\b%s\b" % re.escape(actual), canon, l)
            if new != l:
                w.lines[i] = new
                n += 1
        w.log["rewrites"].append({"rule": "R20-alpha-rename", "site": f"{w.src.rel} fn {w.name}", "before": actual, "after": canon, "note": f"parameter renamed back to the name the sidecar uses ({n} lines); alpha-renaming, the canonical name does not occur otherwise"})



def hole_arm_live(w, head_regex, hint, rec_names):
    """Make a `Unifier(..) =>` arm verifiable for RESOLVED holes:
    R9  `{ subterm.borrow().clone() }` -> `hole_content(subterm)` (assumed contract: the frozen cell content);
    R11 the recursive calls inside the arm -> `<fn>_rec(..)`, external stubs carrying the function's OWN contract
        (partial-correctness induction; termination of the recursion through hole contents rests on the
        acyclicity of the hole graph, which is not verified)."""
    i = w.find(head_regex)
    j = w.block_end(i)
    n = 0
    for k in range(i, j + 1):
        new = w.lines[k].replace("{ subterm.borrow().clone() }", "hole_content(subterm)")
        if new != w.lines[k]:
            w.log["rewrites"].append({"rule": "R9-hole-read", "site": w._where(k), "before": w.lines[k], "after": new, "note": "RefCell read + clone as a stub with the assumed frozen-content contract"})
            w.lines[k] = new
            n += 1
        new = w.lines[k]
        for name in rec_names:
            new = re.sub(r"(?<![\w.])" + name + r"\(", name + "_rec(", new)
        if new != w.lines[k]:
            w.log["rewrites"].append({"rule": "R11-hole-recursion", "site": w._where(k), "before": w.lines[k], "after": new, "note": "recursive call inside a hole arm as a call to a stub with the function's own contract"})
            w.lines[k] = new
    if n != 1:
        raise LostAnchor(f"{w._where(i)}: expected exactly one `{{ subterm.borrow().clone() }}` in the hole arm, found {n}")
    if hint:
        # the hint goes at the head of the arm: under the precondition the hole is a resolved one
        w.lines[i + 1 : i + 1] = hint.rstrip("\n").split("\n")
        w.log["annotations"].append({"fn": w.name, "kind": "proof-after", "anchor": "Unifier(subterm, subterm_shift) => {"})


def rec_stub(w):
    """The external stub `<fn>_rec` with the same signature and contract as the woven function w (minus
    `decreases`)."""
    i = w.lines.index("{")
    head = []
    skip = False
    for l in w.lines[:i]:
        if l.startswith("    decreases"):
            skip = True
            continue
        if skip and l.startswith("        "):
            continue
        skip = False
        if l.startswith("#[verifier::exec_allows_no_decreases_clause]"):
            continue
        head.append(l)
    text = "\n".join(head)
    text, n = re.subn(r"\bfn " + w.name + r"\b", "fn " + w.name + "_rec", text, count=1)
    if n != 1:
        raise LostAnchor(f"{w.src.rel} fn {w.name}: cannot derive the _rec stub")
    return "// R11 stub: same contract as `" + w.name + "`; used only for the recursive calls inside hole arms\n#[verifier::external_body]\n" + text + "\n{ unimplemented!() }\n"


def map_or_else_to_match(w, head_regex):
    """R10: `{ E }.map_or_else(|| A, |x| { B })` (rustfmt layout) -> `match { E } { None => A, Some(x) => { B } }`."""
    i0 = w.find(head_regex)
    j0 = w.block_end(i0)
    i = w.find(r"^\s*\{ subterm\.borrow\(\)\.clone\(\) \}\.map_or_else\($", 1, i0)
    j = w.block_end(i)
    if j > j0 or w.lines[j].strip() != ")":
        raise LostAnchor(f"{w._where(i)}: map_or_else shape not as expected")
    a = i + 1
    m1 = re.match(r"^(\s*)\|\| (.*)$", w.lines[a])
    if not m1:
        raise LostAnchor(f"{w._where(a)}: expected `|| ..`")
    ae = w.block_end(a)
    if not w.lines[ae].rstrip().endswith(","):
        raise LostAnchor(f"{w._where(ae)}: expected the end of the first closure")
    bline = ae + 1
    m2 = re.match(r"^(\s*)\|(\w+)\| \{$", w.lines[bline])
    if not m2:
        raise LostAnchor(f"{w._where(bline)}: expected `|x| {{`")
    be = w.block_end(bline)
    if w.lines[be].strip() != "}," or be + 1 != j:
        raise LostAnchor(f"{w._where(be)}: expected the end of the second closure")
    ind = m1.group(1)
    head = w.lines[i].replace(".map_or_else(", " {")
    head = re.sub(r"^(\s*)", r"\1match ", head, count=1)
    new = [head, ind + "None => " + m1.group(2)] + w.lines[a + 1 : ae + 1] + [ind + "Some(" + m2.group(2) + ") => {"] + w.lines[bline + 1 : be] + [ind + "}", w.lines[j].replace(")", "}")]
    w.rewrite_lines("R10-map-or-else", i, j, new, note="Option::map_or_else with two closures as the equivalent match")


def weave_signed_shift(w, sc):
    canonical_params(w)
    w.contract(sc["signed_shift.contract"], ret="r")
    w.body_first(sc["signed_shift.first"])
    # the name of the vector being built is taken from the code, not fixed in the sidecar
    VEC_RX = r"^\s*let mut (\w+) = (vec!\[\]|Vec::new\(\)|Vec::with_capacity\(.*\));$"
    i = w.find(VEC_RX)
    vec = re.match(VEC_RX, w.lines[i]).group(1)
    i = w.find(r"^\s*let \w+ = .*\bcutoff\b.*;$", 1, w.find(r"^        Let\(definitions, body\) => \{$"))
    cut = re.match(r"^\s*let (\w+) = ", w.lines[i]).group(1)
    sub = lambda t: t.replace("$VEC", vec).replace("$CUT", cut)
    w.ascribe(VEC_RX, "Vec<(&'a str, Rc<Term<'a>>, Rc<Term<'a>>)>")
    # facts needed at the body's `?` exit: placed right after the loop, wherever the body is shifted
    i_for = w.find(r"^\s*for .* in .* \{$")
    j_for = w.block_end(i_for)
    w.lines[j_for + 1 : j_for + 1] = sub(sc["signed_shift.let.tail.pre"]).rstrip("\n").split("\n")
    w.for_invariant(1, "it", sub(sc["signed_shift.let.loop"]))
    # first statement of the loop body
    i = w.find(r"^\s*" + vec + r"\.push\(\($")
    w.lines[i:i] = sc["signed_shift.let.body"].rstrip("\n").split("\n")
    w.log["annotations"].append({"fn": w.name, "kind": "proof-before", "anchor": vec + ".push(("})
    i_let = w.find(r"^        Let\(definitions, body\) => \{$")
    w.lines[i_let + 1 : i_let + 1] = sc["signed_shift.let.pre"].rstrip("\n").split("\n")
    w.log["annotations"].append({"fn": w.name, "kind": "proof-after", "anchor": "Let(definitions, body) => {"})
    w.bind_tail(r"^            Some\(Term \{$", "shifted", sc["signed_shift.let.tail.post"])
    hole_arm_live(w, r"^        Unifier\(subterm, subterm_shift\) => \{$", sc["signed_shift.hole"], ["signed_shift", "unsigned_shift"])


def weave_unsigned_shift(w, sc):
    canonical_params(w)
    w.contract(sc["unsigned_shift.contract"], ret="r")


HOLE_STUB = """// R6: bodies of `Unifier(..) =>` arms whose syntax Verus rejects are replaced by a call to this
// function.  Its precondition is `false`, so the verifier must prove the arm unreachable.
#[verifier::external_body]
pub fn hole_arm_unreachable<'a>() -> Term<'a>
    requires false,
{ unreachable!() }
#[verifier::external_body]
pub fn hole_arm_unreachable_opt<'a>() -> Option<Term<'a>>
    requires false,
{ unreachable!() }
"""

DEFS_TY = "Vec<(&'a str, Rc<Term<'a>>, Rc<Term<'a>>)>"


def drop_hole_arm(w, head_regex, stub_call):
    """R6: replace the body of the Unifier arm by a call that requires false."""
    i = w.find(head_regex)
    j = w.block_end(i)
    ind = " " * (len(w.lines[i]) - len(w.lines[i].lstrip()) + 4)
    w.log["dropped"].append({"site": w._where(i + 1), "text": "\n".join(w.lines[i + 1 : j]), "why": "R6: hole arm; unreachable under the hole-free precondition (checked: replaced by a call requiring false)"})
    w.rewrite_lines("R6-hole-arm", i + 1, j - 1, [ind + stub_call], note="arm body replaced by a call whose precondition is false")


def map_collect_to_loop(w, first_regex, iter_name, invariant, body_pre=None, elem_ty=DEFS_TY, nth=1):
    """R4: `E.iter().map(|PAT| BODY).collect()` (rustfmt's multi-line layout) ->
    `{ let mut out: TY = Vec::new(); for PAT in it: E.iter() invariant .. { out.push(BODY); } out }`.
    E, PAT and BODY are copied verbatim."""
    i = w.find(first_regex, nth)
    ind = " " * (len(w.lines[i]) - len(w.lines[i].lstrip()))
    mm = re.match(r"^(let \w+ = )?(\w+)$", w.lines[i].strip())
    if not mm:
        raise LostAnchor(f"{w._where(i)}: expected `[let v = ]E` before `.iter()`")
    lead, recv = mm.group(1) or "", mm.group(2)
    if w.lines[i + 1].strip() != ".iter()":
        raise LostAnchor(f"{w._where(i+1)}: expected `.iter()`")
    m = re.match(r"^\s*\.map\(\|(.*)\| \{$", w.lines[i + 2])
    if not m:
        raise LostAnchor(f"{w._where(i+2)}: expected `.map(|PAT| {{`")
    pat = m.group(1)
    j = w.block_end(i + 2)
    if w.lines[j].strip() != "})":
        raise LostAnchor(f"{w._where(j)}: expected the end of the map closure")
    tail = w.lines[j + 1].strip()
    if tail not in (".collect(),", ".collect();", ".collect()"):
        raise LostAnchor(f"{w._where(j+1)}: expected `.collect()`")
    body = w.lines[i + 3 : j]
    new = [ind + lead + "{", ind + f"    let mut out: {elem_ty} = Vec::new();", ind + f"    for {pat} in {iter_name}: {recv}.iter()"]
    new += invariant.rstrip("\n").split("\n")
    new += [ind + "    {"]
    if body_pre:
        new += body_pre.rstrip("\n").split("\n")
    new += [ind + "    out.push("] + body + [ind + "    );", ind + "    }", ind + "    out", ind + "}" + tail[len(".collect()"):]]
    w.rewrite_lines("R4-map-collect", i, j + 1, new, note="iterator adapter chain that only builds a Vec, as an explicit push loop")


def weave_open(w, sc):
    canonical_params(w)
    w.contract(sc["open.contract"], ret="r")
    w.body_first(sc["open.first"])
    map_or_else_to_match(w, r"^        Unifier\(subterm, subterm_shift\) => \{$")
    hole_arm_live(w, r"^        Unifier\(subterm, subterm_shift\) => \{$", sc["open.hole"], ["open", "unsigned_shift"])
    i_let = w.find(r"^        Let\(definitions, body\) => \{$")
    w.lines[i_let + 1 : i_let + 1] = sc["open.let.pre"].rstrip("\n").split("\n")
    w.log["annotations"].append({"fn": w.name, "kind": "proof-after", "anchor": "Let(definitions, body) => {"})
    i = w.find(r"^\s*let \w+ = .*\bindex_to_replace\b.*;$", 1, i_let)
    idx = re.match(r"^\s*let (\w+) = ", w.lines[i]).group(1)
    i = w.find(r"^\s*let \w+ = .*\bshift_amount\b.*;$", 1, i_let)
    shf = re.match(r"^\s*let (\w+) = ", w.lines[i]).group(1)
    map_collect_to_loop(w, r"^\s*(let \w+ = )?definitions$", "it", sc["open.let.loop"].replace("$IDX", idx).replace("$SHIFT", shf), body_pre=sc["open.let.body"])
    w.bind_tail(r"^            Term \{$", "opened", sc["open.let.tail.post"])


def weave_free_variables(w, sc):
    canonical_params(w)
    w.contract(sc["free_variables.contract"])
    w.body_first(sc["free_variables.first"])
    hole_arm_live(w, r"^        Variant::Unifier\(subterm, subterm_shift\) => \{$", sc["free_variables.hole"], ["free_variables", "unsigned_shift"])
    # hints are placed by structure (start / end of the loop body, end of the arm), not on statement text
    i_let = w.find(r"^        Variant::Let\(definitions, body\) => \{$")
    j_let = w.block_end(i_let)
    i_for = w.find(r"^\s*for .* in definitions(\.iter\(\))? \{$", 1, i_let)
    j_for = w.block_end(i_for)
    if not (i_let < i_for < j_for < j_let):
        raise LostAnchor(f"{w._where(i_let)}: Let arm of free_variables not in the expected shape")
    w.lines[j_let:j_let] = sc["free_variables.let.post"].rstrip("\n").split("\n")
    w.lines[j_for:j_for] = sc["free_variables.let.body.end"].rstrip("\n").split("\n")
    w.lines[i_for + 1 : i_for + 1] = sc["free_variables.let.body"].rstrip("\n").split("\n")
    w.lines[i_for:i_for] = sc["free_variables.let.pre"].rstrip("\n").split("\n")
    w.log["annotations"].append({"fn": w.name, "kind": "proof-blocks", "anchor": "Let arm: before loop, loop body start/end, end of arm"})
    w.for_invariant(1, "it", sc["free_variables.let.loop"])


def closure_contract(w, regex, head):
    """`.map(|q| Term {` .. `})`  ->  `.map(HEAD { Term {` .. `} })` : the closure gets a parameter
    type, a named result and an `ensures`; its body text is unchanged (extra braces only)."""
    i = w.find(regex)
    j = w.block_end(i)
    m = re.match(r"^(.*\()\|\w+\| (\w+ \{)$", w.lines[i])
    if not m or w.lines[j].strip() != "})":
        raise LostAnchor(f"{w._where(i)}: closure shape not as expected")
    w.lines[i] = m.group(1) + head.strip() + " { " + m.group(2)
    w.lines[j] = w.lines[j].replace("})", "} })")
    w.log["annotations"].append({"fn": w.name, "kind": "closure-contract", "anchor": regex})


def once_chain_to_loop(w, start, invariant):
    """R4 (variant): `once(X).chain(E.iter().skip(1).map(|PAT| { BODY })).collect()` ->
    `{ let mut out = Vec::new(); out.push(X); for k in 1..E.len() { let PAT = &E[k]; out.push(BODY); } out }`."""
    i = w.find(r"^\s*once\(.*\)$", 1, start)
    ind = " " * (len(w.lines[i]) - len(w.lines[i].lstrip()))
    x = re.match(r"^\s*once\((.*)\)$", w.lines[i]).group(1)
    m = re.match(r"^\s*\.chain\((\w+)\.iter\(\)\.skip\((\d+)\)\.map\($", w.lines[i + 1])
    if not m:
        raise LostAnchor(f"{w._where(i+1)}: expected `.chain(E.iter().skip(N).map(`")
    recv, skipn = m.group(1), m.group(2)
    m2 = re.match(r"^\s*\|(.*)\| \{$", w.lines[i + 2])
    if not m2:
        raise LostAnchor(f"{w._where(i+2)}: expected `|PAT| {{`")
    pat = m2.group(1)
    j = w.block_end(i + 2)
    if w.lines[j].strip() != "}," or w.lines[j + 1].strip() != "))" or w.lines[j + 2].strip() != ".collect(),":
        raise LostAnchor(f"{w._where(j)}: expected `}},` `))` `.collect(),`")
    body = w.lines[i + 3 : j]
    new = [ind + "{", ind + f"    let mut out: {DEFS_TY} = Vec::new();", ind + f"    out.push({x});", ind + f"    for k in {skipn}..{recv}.len()"]
    new += invariant.rstrip("\n").split("\n")
    new += [ind + "    {", ind + f"        let {pat} = &{recv}[k];", ind + "        out.push("] + body + [ind + "        );", ind + "    }", ind + "    out", ind + "},"]
    w.rewrite_lines("R4-once-chain-skip", i, j + 2, new, note="once(X).chain(E.iter().skip(1).map(f)).collect() as an explicit push loop from index 1")


def skip_map_collect_to_loop(w, first_regex, invariant, body_pre=None):
    """R4 (variant): `let v = E.iter().skip(1).map(|PAT| { BODY }).collect();` ->
    `let v = { let mut out = Vec::new(); for k in 1..E.len() { let PAT = &E[k]; out.push(BODY); } out };`"""
    i = w.find(first_regex)
    m = re.match(r"^(\s*)(let \w+ = )(\w+)$", w.lines[i])
    if not m:
        raise LostAnchor(f"{w._where(i)}: expected `let v = E`")
    ind, head, recv = m.group(1), m.group(2), m.group(3)
    msk = re.match(r"^\.skip\((\d+)\)$", w.lines[i + 2].strip())
    if w.lines[i + 1].strip() != ".iter()" or not msk:
        raise LostAnchor(f"{w._where(i+1)}: expected `.iter()` `.skip(N)`")
    skipn = msk.group(1)
    m2 = re.match(r"^\s*\.map\(\|(.*)\| \{$", w.lines[i + 3])
    if not m2:
        raise LostAnchor(f"{w._where(i+3)}: expected `.map(|PAT| {{`")
    pat = m2.group(1)
    j = w.block_end(i + 3)
    if w.lines[j].strip() != "})" or w.lines[j + 1].strip() != ".collect();":
        raise LostAnchor(f"{w._where(j)}: expected `}})` `.collect();`")
    body = w.lines[i + 4 : j]
    new = [ind + head + "{", ind + f"    let mut out: {DEFS_TY} = Vec::new();", ind + f"    for k in {skipn}..{recv}.len()"]
    new += invariant.rstrip("\n").split("\n")
    new += [ind + "    {", ind + f"        let {pat} = &{recv}[k];"]
    if body_pre:
        new += body_pre.rstrip("\n").split("\n")
    new += [ind + "        out.push("] + body + [ind + "        );", ind + "    }", ind + "    out", ind + "};"]
    w.rewrite_lines("R4-skip-map-collect", i, j + 1, new, note="E.iter().skip(1).map(f).collect() as an explicit push loop from index 1")


def bind_return(w, regex, var, proof_text, nth=1, start=0):
    """R7 (variant): `return E;` -> `let VAR = E; proof { .. } return VAR;`"""
    i = w.find(regex, nth, start)
    j = w.block_end(i)
    if not w.lines[i].lstrip().startswith("return ") or not w.lines[j].rstrip().endswith(";"):
        raise LostAnchor(f"{w._where(i)}: expected a `return E;` statement")
    ind = " " * (len(w.lines[i]) - len(w.lines[i].lstrip()))
    body = w.lines[i : j + 1]
    new = [ind + f"let {var} = " + body[0].lstrip()[len("return "):]] + body[1:]
    new += proof_text.rstrip("\n").split("\n")
    new.append(ind + f"return {var};")
    w.rewrite_lines("R7-bind-return", i, j, new, note="returned expression bound to a local so that a proof block can follow it")


def hoist_argument(w, stmt_regex, arg_regex, var, proof_text):
    """R8: `let x = f(a, &Term { .. }, c);` -> `let VAR = Term { .. }; proof { .. } let x = f(a, &VAR, c);`
    The hoisted argument is a struct literal; the arguments before it are plain variable reads, so the
    evaluation order of everything observable is unchanged."""
    i = w.find(stmt_regex)
    j = w.block_end(i)
    a = w.find(arg_regex, 1, i)
    if a > j:
        raise LostAnchor(f"{w._where(i)}: argument /{arg_regex}/ not inside this statement")
    for k in range(i + 1, a):
        if not re.match(r"^\s*\w+,$", w.lines[k]):
            raise LostAnchor(f"{w._where(k)}: arguments before the hoisted one must be plain variables")
    e = w.block_end(a)
    if w.lines[e].strip() != "}," or not w.lines[a].strip().startswith("&"):
        raise LostAnchor(f"{w._where(a)}: expected `&Term {{ .. }},`")
    ind = " " * (len(w.lines[i]) - len(w.lines[i].lstrip()))
    aind = len(w.lines[a]) - len(w.lines[a].lstrip())
    lit = [l[aind - len(ind):] if l.strip() else l for l in w.lines[a : e + 1]]
    lit[0] = ind + f"let {var} = " + w.lines[a].strip()[1:]
    lit[-1] = ind + "};"
    new = lit + proof_text.rstrip("\n").split("\n") + w.lines[i:a] + [" " * aind + f"&{var},"] + w.lines[e + 1 : j + 1]
    w.rewrite_lines("R8-hoist-argument", i, j, new, note="struct-literal argument bound to a local before the call so that a proof block can mention it")


def rewrite_bigint_ops(w):
    """R3: operator sugar on the identifiers bound by `IntegerLiteral(name)` patterns."""
    names = set()
    for l in w.lines:
        names.update(re.findall(r"IntegerLiteral\((\w+)\)", l))
    names -= {"quotient"}
    if not names:
        raise LostAnchor(f"{w.src.rel} fn {w.name}: no IntegerLiteral(..) patterns found")
    alt = "|".join(sorted(names))
    ops = [(r"<=", "bigint_le"), (r">=", "bigint_ge"), (r"==", "bigint_eq"), (r"<", "bigint_lt"), (r">", "bigint_gt"),
           (r"\+", "bigint_add"), (r"-", "bigint_sub"), (r"\*", "bigint_mul")]
    total = 0
    for op, fn in ops:
        total += w.rewrite_regex("R3-bigint-operator", r"\b(" + alt + r") " + op + r" (" + alt + r")\b", fn + r"(\1, \2)",
                                 note="overloaded operator on &BigInt as a named function with the assumed num-bigint contract")
    total += w.rewrite_regex("R3-bigint-operator", r"\(-(" + alt + r")\)", r"(bigint_neg(\1))", note="unary minus on &BigInt as a named function")
    if total == 0:
        raise LostAnchor(f"{w.src.rel} fn {w.name}: no BigInt operator site found")


def weave_is_value(w, sc):
    canonical_params(w)
    w.contract(sc["is_value.contract"], ret="r")


def weave_step(w, sc, strict=False):
    canonical_params(w)
    w.contract(sc["step_strict.contract" if strict else "step.contract"], ret="r")
    w.body_first(sc["step_strict.first" if strict else "step.first"])
    # the hole arm: R10 (`.map(closure)` on the hole read as a match), then R9/R11
    i = w.find(r"^        Unifier\(subterm, subterm_shift\) => \{$")
    # rustfmt may break the chain after the block: join the two lines first (layout only)
    for k0 in range(i, w.block_end(i)):
        if re.match(r"^\s*\{ subterm\.borrow\(\)\.clone\(\) \}$", w.lines[k0]) and re.match(r"^\s*\.(map|and_then)\(\|subterm\| .*\)$", w.lines[k0 + 1]):
            w.lines[k0 : k0 + 2] = [w.lines[k0] + w.lines[k0 + 1].strip()]
            break
    k = w.find(r"^\s*\{ subterm\.borrow\(\)\.clone\(\) \}\.(map|and_then)\(\|subterm\| (.*)\)$", 1, i)
    m = re.match(r"^(\s*)(\{ subterm\.borrow\(\)\.clone\(\) \})\.(map|and_then)\(\|subterm\| (.*)\)$", w.lines[k])
    ind = m.group(1)
    inner = "Some(" + m.group(4) + ")" if m.group(3) == "map" else m.group(4)
    w.rewrite_lines("R10-option-map", k, k, [ind + "match " + m.group(2) + " {", ind + "    None => None,", ind + "    Some(subterm) => {", ind + "        " + inner, ind + "    }", ind + "}"], note="Option::map / and_then with a closure as the equivalent match")
    hole_arm_live(w, r"^        Unifier\(subterm, subterm_shift\) => \{$", sc["step.hole"], ["unsigned_shift", "step"])
    # R3: operator sugar on &BigInt
    rewrite_bigint_ops(w)
    if w.count(r"\.map\(\|quotient\| Term \{$"):
        closure_contract(w, r"\.map\(\|quotient\| Term \{$", sc["step.div.closure.head"])
    i_app = w.find(r"^        Application\(applicand, argument\) => \{$")
    w.lines[i_app + 1 : i_app + 1] = sc["step.app.head"].rstrip("\n").split("\n")
    w.log["annotations"].append({"fn": w.name, "kind": "proof-after", "anchor": "Application(applicand, argument) => {"})
    # the Let arm
    i_let = w.find(r"^        Let\(definitions, body\) => \{$")
    w.lines[i_let + 1 : i_let + 1] = sc["step.let.none.pre"].rstrip("\n").split("\n")
    w.log["annotations"].append({"fn": w.name, "kind": "proof-after", "anchor": "Let(definitions, body) => {"})
    i = w.find(r"^\s*if let Some\(\(variable, annotation, definition\)\) = definitions\.first\(\) \{$", 1, i_let)
    w.lines[i + 1 : i + 1] = sc["step.let.some.pre"].rstrip("\n").split("\n")
    w.log["annotations"].append({"fn": w.name, "kind": "proof-after", "anchor": "definitions.first()"})
    once_chain_to_loop(w, i_let, sc["step.let.stepped.loop"])
    bind_return(w, r"^\s*return Some\(Term \{$", "stepped", sc["step.let.stepped.post"], 1, i_let)
    hoist_argument(w, r"^\s*let unfolded_definition = open\($", r"^\s*&Term \{$", "inserted", sc["step.let.inserted.post"])
    w.after(r"^\s*let unfolded_definition = open\($", sc["step.let.unfolded.post"])
    skip_map_collect_to_loop(w, r"^\s*let substituted_definitions = definitions$", sc["step.let.subst.loop"], body_pre=sc["step.let.subst.body"])
    w.before(r"^\s*let substituted_body = open\(.*\);$", sc["step.let.body.pre"])
    i_sb = w.find(r"^\s*let substituted_body = open\(")
    i_fin = w.find(r"^\s*Some\(Term \{$", 1, i_sb)
    ind = len(w.lines[i_fin]) - len(w.lines[i_fin].lstrip())
    w.bind_tail(r"^" + " " * ind + r"Some\(Term \{$", "substituted", sc["step.let.final.post"], nth=w.count_until(r"^" + " " * ind + r"Some\(Term \{$", i_fin))


def weave_evaluate(w, sc):
    canonical_params(w)
    # R20: the local copy of the term that the loop updates is called `term` in the sidecar (it shadows the parameter,
    # as in the original text); a differently named local is alpha-renamed in the woven copy
    i = w.find(r"^    let mut (\w+) = term\.clone\(\);$")
    cur = re.match(r"^    let mut (\w+) = ", w.lines[i]).group(1)
    if cur != "term":
        if any(re.search(r"\bterm\b", l.split("//")[0]) for l in w.lines[i + 1 :]):
            raise LostAnchor(f"{w._where(i)}: the local `{cur}` cannot be renamed to `term`: the parameter is still used below")
        for k in range(i, len(w.lines)):
            w.lines[k] = re.sub(r"\b%s\b" % re.escape(cur), "term", w.lines[k]) if k > i else "    let mut term = term.clone();"
        w.log["rewrites"].append({"rule": "R20-alpha-rename", "site": f"{w.src.rel} fn evaluate", "before": cur, "after": "term", "note": "local renamed to the name the sidecar uses (it shadows the parameter, which is not used below)"})
    w.contract(sc["evaluate.contract"], ret="r", attrs="#[verifier::exec_allows_no_decreases_clause]")
    w.before(r"^    let mut term = term\.clone\(\);$", sc["evaluate.pre"])
    w.after(r"^    let mut term = term\.clone\(\);$", sc["evaluate.cloned"])
    w.while_invariant(1, sc["evaluate.loop"])
    i = w.find(r"^        term = \w+;$")
    stepped = re.match(r"^        term = (\w+);$", w.lines[i]).group(1)
    w.lines[i:i] = sc["evaluate.loop.body.pre"].replace("$STEPPED", stepped).rstrip("\n").split("\n")
    w.after(r"^        term = \w+;$", sc["evaluate.loop.body.post"])
    w.before(r"^    if !?is_value\(&\w+\) \{$", sc["evaluate.after"])
    # R5: the `message: format!(..)` field (one line or wrapped by rustfmt) -> `message: stuck_message(&term),`
    i = w.find(r"^\s*message: format!\(")
    depth, j = 0, None
    for k in range(i, len(w.lines)):
        code = re.sub(r'"[^"]*"', '""', w.lines[k])
        depth += sum(code.count(c) for c in "([{") - sum(code.count(c) for c in ")]}")
        if depth == 0 and code.rstrip().endswith(","):
            j = k
            break
    text = " ".join(l.strip() for l in w.lines[i : (j or i) + 1])
    if j is None or "is stuck!" not in text or not re.search(r"\bterm\.to_string\(\)\.code_str\(\)", text):
        raise LostAnchor(f"{w._where(i)}: rule R5-stuck-message: the message of the stuck error is not as expected")
    ind = re.match(r"^\s*", w.lines[i]).group(0)
    w.rewrite_lines("R5-stuck-message", i, j, [ind + "message: stuck_message(&term),"], note="message text is not part of C02; Display/format! are outside the verifier's reach")


class Build:
    """A woven file: text + what was done + where each function under contract sits in it."""

    def __init__(self, name):
        self.name = name
        self.chunks = []
        self.log = new_log()
        self.fn_names = []
        self.fn_ranges = {}

    def add(self, text):
        self.chunks.append(text if text.endswith("\n") else text + "\n")

    def add_fn(self, w, external=False, witness_of=None):
        start = sum(c.count("\n") for c in self.chunks) + 1
        text = w.text()
        if external:
            # contract only: the body is cut (it is verified by the per-function job on the full file)
            ls = w.lines
            i = ls.index("{")
            text = "#[verifier::external_body]\n" + "\n".join(ls[:i]) + "\n{ unimplemented!() }"
        self.add(text)
        end = sum(c.count("\n") for c in self.chunks)
        self.fn_names.append(w.name)
        self.fn_ranges[w.name] = (start, end)

    def text(self):
        return "".join(self.chunks)

    def fn_at(self, line):
        for n, (a, b) in self.fn_ranges.items():
            if a <= line <= b:
                return n
        return None


CORE_HEADER = (
    "// GENERATED by /verif/weave on every run from /repo's working tree -- do not edit.\n"
    "#![allow(unused_imports, dead_code, unused_variables, non_snake_case, unused_mut, unused_parens, unused_braces)]\n"
    "use vstd::prelude::*;\nuse std::rc::Rc;\nuse std::cell::RefCell;\nuse std::convert::TryFrom;\nuse std::collections::HashSet;\nuse std::iter::once;\n"
    "verus! {\n"
)


def build_core(repo, external=(), canary=None, with_witness=True, boost=False):
    """external: names of functions under contract whose bodies are NOT verified in this file
    (marked external_body; used by the lemma job).  canary: (fn, section) -> use the deliberately
    wrong contract `section` for fn (must-fail run)."""
    b = Build("core")
    log = b.log
    sc = sections(os.path.join(VERIF, "contracts/u1.vrs"))
    sc.update(sections(os.path.join(VERIF, "contracts/u2.vrs")))
    if boost:
        for key in ("signed_shift", "open", "free_variables", "step"):
            sc[key + ".first"] = sc[key + ".first"] + "    reveal_with_fuel(view, 3);\n    reveal_with_fuel(kids_of, 3);\n"
    if canary:
        sc = dict(sc)
        sc[canary[0] + ".contract"] = sc[canary[1]]
    term_rs = Source(repo, "src/term.rs")
    error_rs = Source(repo, "src/error.rs")
    db_rs = Source(repo, "src/de_bruijn.rs")

    b.add(CORE_HEADER)
    b.add(read("spec/core_prelude.rs"))

    sr = Woven(error_rs, "struct", "SourceRange", log)
    if sr.attrs != ["#[derive(Clone, Copy, Debug)]"]:
        raise LostAnchor(f"src/error.rs struct SourceRange: expected #[derive(Clone, Copy, Debug)], found {sr.attrs}")
    b.add("#[derive(Clone, Copy)]\n" + sr.text())
    log["dropped"].append({"site": "src/error.rs struct SourceRange", "text": "Debug in #[derive(Clone, Copy, Debug)]", "why": "Debug is not used by the functions under contract"})

    t = Woven(term_rs, "struct", "Term", log)
    v = Woven(term_rs, "enum", "Variant", log)
    strip_clippy(v)
    for w in (t, v):
        if w.attrs != ["#[derive(Clone, Debug)]"]:
            raise LostAnchor(f"src/term.rs {w.kind} {w.name}: expected #[derive(Clone, Debug)], found {w.attrs}")
        log["rewrites"].append({"rule": "R1-derive-clone", "site": f"src/term.rs {w.kind} {w.name}", "before": "#[derive(Clone, Debug)]", "after": "(assumed Clone impl: r == *self)", "note": "Verus gives a derived non-Copy Clone no specification"})
    b.add(t.text())
    b.add(v.text())
    er = Woven(error_rs, "struct", "Error", log)
    if er.attrs != ["#[derive(Clone, Debug)]"]:
        raise LostAnchor(f"src/error.rs struct Error: expected #[derive(Clone, Debug)], found {er.attrs}")
    er.rewrite_regex("R2-type-substitution", r"Option<Rc<dyn error::Error>>", "Option<Rc<DynError>>", expect=1, note="dyn payload replaced by an opaque stub type")
    b.add(er.text())
    log["dropped"].append({"site": "src/error.rs struct Error", "text": "#[derive(Clone, Debug)]", "why": "neither impl is used by the functions under contract"})
    b.add(CLONE_IMPLS)
    b.add(VARIANT_IMPORT)
    b.add(read("spec/core_prelude_term.rs"))
    b.add(read("spec/core_spec.rs"))
    b.add(read("spec/core_bounds.rs"))
    b.add(read("spec/core_laws.rs"))
    b.add(read("spec/core_named.rs"))
    b.add(read("spec/eval_spec.rs"))
    b.add(read("spec/eval_closed.rs"))

    ss = Woven(db_rs, "fn", "signed_shift", log)
    strip_clippy(ss)
    weave_signed_shift(ss, sc)
    us = Woven(db_rs, "fn", "unsigned_shift", log)
    weave_unsigned_shift(us, sc)
    op = Woven(db_rs, "fn", "open", log)
    strip_clippy(op)
    weave_open(op, sc)
    fv = Woven(term_rs, "fn", "free_variables", log)
    weave_free_variables(fv, sc)
    ev_rs = Source(repo, "src/evaluator.rs")
    # the callees are bound by name: make sure the compiler binds them to the same functions
    guard_bindings(db_rs, {"signed_shift": "", "unsigned_shift": "", "open": ""}, own=("signed_shift", "unsigned_shift", "open"))
    guard_bindings(term_rs, {"unsigned_shift": "de_bruijn", "free_variables": ""}, own=("free_variables",))
    guard_bindings(ev_rs, {"open": "de_bruijn", "unsigned_shift": "de_bruijn", "is_value": "", "step": "", "evaluate": ""}, own=("is_value", "step", "evaluate"))
    iv = Woven(ev_rs, "fn", "is_value", log)
    weave_is_value(iv, sc)
    st = Woven(ev_rs, "fn", "step", log)
    strip_clippy(st)
    weave_step(st, sc)
    # the same real text once more under the strict contract for terms without hole nodes
    st2 = Woven(ev_rs, "fn", "step", log)
    strip_clippy(st2)
    weave_step(st2, sc, strict=True)
    st2.lines = [re.sub(r"(?<![\w.])step\(", "step_strict(", l) for l in st2.lines]
    st2.lines = [re.sub(r"\bfn step<", "fn step_strict<", l) for l in st2.lines]
    st2.name = "step_strict"
    log["rewrites"].append({"rule": "R12-second-contract", "site": "src/evaluator.rs fn step", "before": "fn step / step(..)", "after": "fn step_strict / step_strict(..)", "note": "the same body verified a second time under the strict contract (requires t_unifier_free); only the function's own name is changed"})
    ev = Woven(ev_rs, "fn", "evaluate", log)
    weave_evaluate(ev, sc)
    for f in (ss, us, op, fv, iv, st, st2, ev):
        b.add_fn(f, external=f.name in external)
    for f in (ss, us, op, fv, st):
        b.add(rec_stub(f))

    if with_witness:
        b.add(read("spec/core_witness.rs"))
    b.add("} // verus!\nfn main() {}\n")
    return b


PARSER_HEADER = (
    "// GENERATED by /verif/weave on every run from /repo's working tree -- do not edit.\n"
    "#![allow(unused_imports, dead_code, unused_variables, non_snake_case, unused_mut, unused_parens, unused_braces)]\n"
    "use vstd::prelude::*;\nuse std::rc::Rc;\n"
    "verus! {\n"
)

PARSER_CLONE_IMPLS = """// R1: derived Clone replaced by an assumed specification (Rust's derive semantics).
impl<'a> Clone for Term<'a> {
    #[verifier::external_body]
    fn clone(&self) -> (r: Self) ensures r == *self { unimplemented!() }
}
"""


def expr_closure_contract(w, regex, head, nth=1):
    """`.map(|x| EXPR)` on one line -> `.map(HEAD { EXPR })`; for rustfmt's two-line form
    `.map(|x| {` / `EXPR` / `}),` the header alone is replaced."""
    i = w.find(regex, nth)
    l = w.lines[i]
    m = re.match(r"^(\s*\.map\()\|\w+\| (.*)\)(,?)$", l)
    if m and not m.group(2).rstrip().endswith("{"):
        w.lines[i] = m.group(1) + head.strip() + " { " + m.group(2) + " })" + m.group(3)
    else:
        m = re.match(r"^(.*\.map\()\|\w+\| \{$", l)
        if not m:
            raise LostAnchor(f"{w._where(i)}: closure shape not as expected")
        w.lines[i] = m.group(1) + head.strip() + " {"
    w.log["annotations"].append({"fn": w.name, "kind": "closure-contract", "anchor": regex, "nth": nth})


def weave_reassoc(w, sc, key):
    canonical_params(w)
    w.contract(sc[key + ".contract"], ret="r")
    w.body_first(sc[key + ".first"])
    # closures inside Option::map need their own contract; an equivalent `match` needs none
    if w.count(r"\.map\(\|domain\| "):
        expr_closure_contract(w, r"\.map\(\|domain\| ", sc[key + ".closure.lambda"])
    if w.count(r"\.map\(\|annotation\| "):
        expr_closure_contract(w, r"\.map\(\|annotation\| ", sc[key + ".closure.let"])
    # the local holding the rebuilt non-chain node; the hint follows the statement that defines it
    i = w.find(r"^    let \w+ = match &term\.variant \{$")
    red = re.match(r"^    let (\w+) = ", w.lines[i]).group(1)
    w.after(r"^    let \w+ = match &term\.variant \{$", sc[key + ".bottom"].replace("$REDUCED", red))
    # a `Term { .. }` literal nested directly inside another one (`Rc::new(Term { .. })`): bind it in place so
    # that a proof block can mention its view (R7 variant; evaluation order unchanged: the block sits where the
    # literal was)
    k = 0
    while True:
        hits = [i for i in range(len(w.lines)) if re.match(r"^\s*Rc::new\(Term \{$", w.lines[i])]
        if k >= len(hits):
            break
        i = hits[k]
        j = w.block_end(i)
        m2 = re.match(r"^(\s*)\}\)(,?)$", w.lines[j])
        if not m2:
            raise LostAnchor(f"{w._where(j)}: nested Term literal does not end in `}})`")
        ind = m2.group(1)
        before = w.lines[i : j + 1]
        w.lines[i] = ind + "Rc::new({ let nested = Term {"
        w.lines[j] = ind + "}; " + sc[key + ".left.post"].strip().replace("$LEFT", "nested") + " nested })" + m2.group(2)
        w.log["rewrites"].append({"rule": "R7-bind-in-place", "site": w._where(i), "before": before[0] + " .. " + before[-1].strip(), "after": w.lines[i].strip() + " .. " + w.lines[j].strip(), "note": "nested struct literal bound to a local inside a block expression at the same place, so that a proof block can mention it"})
        k += 1
    # the extended accumulator of the grouped-last-operand branches (absent in the pre-fix code)
    rx = r"^\s+let \w+ = Term \{$"
    for n in range(1, w.count(rx) + 1):
        i = w.find(rx, n)
        name = re.match(r"^\s*let (\w+) = ", w.lines[i]).group(1)
        w.after(rx, sc[key + ".left.post"].replace("$LEFT", name), nth=n)



PARSER_OWN = ["span", "reassociate_applications", "reassociate_products_and_quotients", "reassociate_sums_and_differences", "error_term",
              "error_factory", "token_source_range", "empty_source_range", "collect_error_factories", "resolve_variables",
              "collect_definitions", "check_definitions", "check_definition", "parse"]


def guard_parser_bindings(parser_rs, repo):
    """parser.rs: the functions under contract call each other (all defined in this file) and, from other modules, only
    is_value / free_variables (stubs of U6) and the error helpers (stubs): the imports must be the expected ones and no
    function under contract may be shadowed (cf. guard_bindings)."""
    own = PARSER_OWN + [f for _, f in packrat_functions(repo)]
    expected = {n: "" for n in own}
    expected.update({"is_value": "evaluator", "free_variables": "term", "throw": "error", "listing": "error"})
    guard_bindings(parser_rs, expected, own=tuple(own))


def build_parser(repo, external=(), canary=None, with_witness=True, boost=False):
    b = Build("parser")
    log = b.log
    sc = sections(os.path.join(VERIF, "contracts/u4.vrs"))
    if boost:
        # fallback proof mode (used only after a failure): deeper unfolding of the view functions
        for key in ("apps", "muls", "adds"):
            sc[key + ".first"] = sc["apps.first"] + "    reveal_with_fuel(pview, 3);\n    reveal_with_fuel(pkids_of, 3);\n"
    if canary:
        sc = dict(sc)
        key = {"reassociate_applications": "apps", "reassociate_products_and_quotients": "muls", "reassociate_sums_and_differences": "adds"}[canary[0]]
        sc[key + ".contract"] = sc[canary[1]]
    parser_rs = Source(repo, "src/parser.rs")
    guard_parser_bindings(parser_rs, repo)
    error_rs = Source(repo, "src/error.rs")
    b.add(PARSER_HEADER)
    b.add(read("spec/parser_prelude.rs"))
    sr = Woven(error_rs, "struct", "SourceRange", log)
    if sr.attrs != ["#[derive(Clone, Copy, Debug)]"]:
        raise LostAnchor(f"src/error.rs struct SourceRange: expected #[derive(Clone, Copy, Debug)], found {sr.attrs}")
    b.add("#[derive(Clone, Copy)]\n" + sr.text())
    sv = Woven(parser_rs, "struct", "SourceVariable", log)
    if sv.attrs != ["#[derive(Clone, Copy, Debug)]"]:
        raise LostAnchor(f"src/parser.rs struct SourceVariable: unexpected attributes {sv.attrs}")
    b.add("#[derive(Clone, Copy)]\n" + sv.text())
    t = Woven(parser_rs, "struct", "Term", log)
    v = Woven(parser_rs, "enum", "Variant", log)
    for w in (t, v):
        if w.attrs != ["#[derive(Clone)]"]:
            raise LostAnchor(f"src/parser.rs {w.kind} {w.name}: expected #[derive(Clone)], found {w.attrs}")
    log["rewrites"].append({"rule": "R1-derive-clone", "site": "src/parser.rs struct Term", "before": "#[derive(Clone)]", "after": "(assumed Clone impl: r == *self)", "note": "Verus gives a derived non-Copy Clone no specification"})
    log["dropped"].append({"site": "src/parser.rs enum Variant", "text": "#[derive(Clone)]", "why": "Variant::clone is not called by the functions under contract"})
    b.add(t.text())
    b.add(v.text())
    b.add(PARSER_CLONE_IMPLS)
    for name in ("ProductOrQuotient", "SumOrDifference"):
        e = Woven(parser_rs, "enum", name, log)
        if e.attrs != ["#[derive(Eq, Ord, PartialEq, PartialOrd)]"]:
            raise LostAnchor(f"src/parser.rs enum {name}: unexpected attributes {e.attrs}")
        log["dropped"].append({"site": f"src/parser.rs enum {name}", "text": e.attrs[0], "why": "comparison impls are not used by the functions under contract (only `match`)"})
        b.add(e.text())
    b.add(read("spec/parser_view.rs"))
    b.add(read("spec/parser_spec.rs"))

    sp = Woven(parser_rs, "fn", "span", log)
    m = re.match(r"^fn span\((\w+): SourceRange, (\w+): SourceRange\)", sp.lines[0])
    if not m:
        raise LostAnchor("src/parser.rs fn span: signature not as expected")
    sp.contract(sc["span.contract"].replace("$A", m.group(1)).replace("$B", m.group(2)), ret="r")
    ra = Woven(parser_rs, "fn", "reassociate_applications", log)
    strip_clippy(ra)
    weave_reassoc(ra, sc, "apps")
    # the other two passes use the same hints with the class substituted
    for key, cls in (("muls", "Class::Muls"), ("adds", "Class::Adds")):
        for sec in ("first", "closure.lambda", "closure.let", "left.post"):
            sc.setdefault(f"{key}.{sec}", sc[f"apps.{sec}"].replace("Class::Apps", cls))
    rm = Woven(parser_rs, "fn", "reassociate_products_and_quotients", log)
    strip_clippy(rm)
    weave_reassoc(rm, sc, "muls")
    rs = Woven(parser_rs, "fn", "reassociate_sums_and_differences", log)
    strip_clippy(rs)
    weave_reassoc(rs, sc, "adds")
    for f in (sp, ra, rm, rs):
        b.add_fn(f, external=f.name in external)
    if with_witness:
        b.add(read("spec/parser_witness.rs"))
    b.add("} // verus!\nfn main() {}\n")
    return b


# ---------------------------------------------------------------------------------------------
# U5: the 36 memoised recursive-descent functions (`parse_term` .. `parse_jumbo_term`) and their macros

PACKRAT_HEADER = (
    "// GENERATED by /verif/weave on every run from /repo's working tree -- do not edit.\n"
    "#![allow(unused_imports, dead_code, unused_variables, non_snake_case, unused_mut, unused_parens, unused_braces, unused_macros, unused_assignments)]\n"
    "use vstd::prelude::*;\nuse std::rc::Rc;\nuse std::path::Path;\n"
)

PACKRAT_MACROS = ["cache_check", "cache_return", "try_return", "try_eval", "consume_token_0", "consume_token_1", "expect_token_0", "expect_token_1"]


def snake(name):
    return re.sub(r"(?<!^)([A-Z])", r"_\1", name).lower()


def packrat_functions(repo):
    """[(Nonterminal variant, function name)] read from the real `enum Nonterminal`."""
    parser_rs = Source(repo, "src/parser.rs")
    _, _, lines, _ = parser_rs.item("enum", "Nonterminal")
    out = []
    for l in lines[1:-1]:
        m = re.match(r"^    (\w+),$", l)
        if not m:
            if l.strip() == "" or l.strip().startswith("//"):
                continue
            raise LostAnchor(f"src/parser.rs enum Nonterminal: unexpected line `{l.strip()}`")
        out.append((m.group(1), "parse_" + snake(m.group(1))))
    return out


def weave_macro(w, sc):
    """The macros are copied verbatim; the memo-table operations become calls of the stubs (R14); the two
    scanning macros get loop invariants, for which their body is wrapped in `verus_exec_expr!` (annotation)."""
    name = w.name
    if name == "cache_check":
        w.rewrite_regex("R14-cache", r"\$cache\.get\(&(\w+)\)", r"cache_get($cache, &\1)", expect=1, note="HashMap::get on the memo table -> stub with the same meaning over the uninterpreted cache_lookup")
        w.rewrite_regex("R14-cache", r"return (\w+)\.clone\(\);", r"return \1;", expect=1, note="cache_get already returns the cloned entry")
    elif name == "cache_return":
        w.rewrite_regex("R14-cache", r"\$cache\.insert\((\w+), (\w+)\.clone\(\)\);", r"cache_put($cache, \1, &\2);", expect=1, note="HashMap::insert of a clone -> stub")
    elif name in ("expect_token_0", "expect_token_1"):
        if name == "expect_token_0":
            w.rewrite_regex("R13-match-place", r"match tokens\[next\]\.variant \{", "match &tokens[next].variant {", expect=1, note="Verus 0.2026.09.13 panics (ast_to_sst stms0) on a guarded match whose scrutinee is an index place; matching on a reference is equivalent for patterns without bindings")
        # wrap the body: `) => {{` .. `}};`  ->  `) => { verus_exec_expr!{{` .. `}} };`
        i = w.find(r"^    \) => \{\{$")
        j = w.find(r"^    \}\};$")
        w.lines[i] = "    ) => { verus_exec_expr!{{"
        w.lines[j] = "    }} };"
        w.log["annotations"].append({"fn": name, "kind": "verus_exec_expr wrapper (syntax only)"})
        k = w.find(r"^\s*let mut next = next;$")
        w.lines[k:k] = sc["expect.ghost"].rstrip("\n").split("\n")
        w.log["annotations"].append({"fn": name, "kind": "ghost-let"})
        w.while_invariant(1, sc[name + ".invariant"])


def drop_format_args(w):
    """R5: `&format!(..)` message arguments (expectation texts) -> `""`."""
    i = 0
    n = 0
    while i < len(w.lines):
        l = w.lines[i]
        m = re.match(r"^(\s*)&format!\(", l)
        if m:
            j = i if l.rstrip().endswith("),") else w.block_end(i)
            if not w.lines[j].rstrip().endswith("),"):
                raise LostAnchor(f"{w._where(i)}: &format!(..) is not a whole macro argument")
            w.rewrite_lines("R5-message", i, j, [m.group(1) + '"",'], note="expectation text (only ever shown to the user) dropped")
            n += 1
        i += 1
    return n


def statement_end(w, i):
    """Last line of the `let` statement starting on line i (bracket depth back to zero and a trailing `;`)."""
    depth = 0
    for j in range(i, len(w.lines)):
        l = w.lines[j]
        code = l.split("//")[0] if not l.lstrip().startswith("//") else ""
        code = re.sub(r'"[^"]*"', '""', code)
        depth += sum(code.count(c) for c in "([{") - sum(code.count(c) for c in ")]}")
        if depth == 0 and code.rstrip().endswith(";"):
            return j
        if depth < 0:
            break
    raise LostAnchor(f"{w._where(i)}: cannot find the end of this statement")


def mark_positions(w, sc):
    """After every statement that binds `next`, mark the new position as a candidate split point of the
    production (`proof { assert(mid(next as int)); }`) -- annotation only."""
    i = 0
    n = 0
    while i < len(w.lines):
        m = re.match(r"^(\s*)let ([^=]*?) =( |$)", w.lines[i])
        if m and re.search(r"\bnext\b", m.group(2)):
            j = statement_end(w, i)
            w.lines[j + 1 : j + 1] = [m.group(1) + sc["parse.mark"].strip()]
            n += 1
            i = j + 1
        i += 1
    w.log["annotations"].append({"fn": w.name, "kind": "position-marks", "count": n})


def weave_parse_prefix(w, sc):
    """`parse`: keep everything up to and including the [tag:error_check] block; cut the rest (R16); state what
    holds at the cut as an assertion."""
    canonical_params(w)
    unchain_let(w)
    i = w.find(r"^    let mut (\w+) = Cache::new\(\);$")
    cache = re.match(r"^    let mut (\w+) = ", w.lines[i]).group(1)
    w.rewrite_lines("R14-cache", i, i, [f"    let mut {cache} = cache_new();"], note="HashMap::new() -> stub: an empty memo table")
    i = w.find(r"^    let \((\w+), (?:mut )?(\w+), _\) = parse_term\(&mut %s, (\w+), 0\);$" % cache)
    term, nxt, toks = re.match(r"^    let \((\w+), (?:mut )?(\w+), _\) = parse_term\(&mut \w+, (\w+), 0\);$", w.lines[i]).groups()
    # the rejecting exit
    i = w.find(r"^        return Err\(\w+$")
    j = statement_end(w, i)
    w.rewrite_lines("R16-parse-exits", i, j, ["        return parse_rejected();"], note="the Err(..) value (error factories applied to the source) is outside the property")
    # the cut: first statement after the block `if !<factories>.is_empty() { return .. }`
    # the [tag:error_check] block: the `if .. {` that encloses the rejecting exit
    rj = w.find(r"^        return parse_rejected\(\);$")
    k = max(x for x in range(0, rj) if re.match(r"^    if .* \{$", w.lines[x]))
    e = w.block_end(k)
    if not (k < rj < e):
        raise LostAnchor(f"{w.src.rel} fn parse: the block around the rejecting exit not found")
    last = len(w.lines) - 1
    if w.lines[last] != "}":
        raise LostAnchor("src/parser.rs fn parse: closing brace not found")
    cut = [l for l in w.lines[e + 1 : last]]
    if not any(re.search(r"\breassociate_applications\(", l) for l in cut) or not any(re.search(r"\bresolve_variables\(", l) for l in cut):
        raise LostAnchor("src/parser.rs fn parse: the part after [tag:error_check] does not look as expected (re-association + resolve_variables)")
    hint = sc["parse.cut"].replace("$TERM", term).replace("$NEXT", nxt).replace("$TOKENS", toks).rstrip("\n").split("\n")
    w.rewrite_lines("R16-parse-exits", e + 1, last - 1, hint + ["    parse_remainder()"], note="the remainder of parse() (re-association calls, resolve_variables, check_definitions) is cut from the woven copy; the assertion states what holds when control reaches it")
    w.contract(sc["parse_fn.contract"], ret="r")


def split_top_level_and(cond):
    """Split `a && b && c` at depth 0 (parentheses, brackets, braces)."""
    parts, depth, cur, i = [], 0, "", 0
    while i < len(cond):
        ch = cond[i]
        if ch in "([{":
            depth += 1
        elif ch in ")]}":
            depth -= 1
        if depth == 0 and cond.startswith(" && ", i):
            parts.append(cur)
            cur = ""
            i += 4
            continue
        cur += ch
        i += 1
    parts.append(cur)
    return [p.strip() for p in parts]


def unchain_let(w):
    """R17: `if A && let P = E { B }` -> `if A { if let P = E { B } }`, and with an else branch (also as the right-hand
    side of a `let`):  `[let X = ]if A && let P = E { B } else { C }[;]` -> `[let X = ]if A { if let P = E { B } else { C } } else { C }[;]`
    -- Verus does not support let chains.  Handles rustfmt's one-line and one-condition-per-line layouts."""
    i = 0
    while i < len(w.lines):
        l = w.lines[i]
        m = re.match(r"^(\s*)((?:let (?:mut )?\w+ = )?)if (.*)$", l)
        if not m:
            i += 1
            continue
        ind, prefix = m.group(1), m.group(2)
        if l.rstrip().endswith("{"):
            conds = split_top_level_and(m.group(3)[:-1].rstrip())
            open_line = i
        else:
            conds = [m.group(3).strip()]
            j = i + 1
            while j < len(w.lines) and re.match(r"^\s+&& ", w.lines[j]):
                conds.append(w.lines[j].strip()[3:].strip())
                j += 1
            if j >= len(w.lines) or w.lines[j] != ind + "{":
                i += 1
                continue
            open_line = j
        if len(conds) < 2 or not any(c.startswith("let ") for c in conds[1:]):
            i += 1
            continue
        close = next((k for k in range(open_line + 1, len(w.lines)) if w.lines[k].startswith(ind + "}")), None)
        if close is None:
            raise LostAnchor(f"{w._where(i)}: let chain: end of the block not found")
        body = w.lines[open_line + 1 : close]
        tail = w.lines[close][len(ind) + 1 :]            # what follows the closing brace: "", ";", " else {"
        if tail in ("", ";"):
            new = [ind + prefix + "if " + conds[0] + " {"] + [ind + "if " + c + " {" for c in conds[1:]] + body + [ind + "}"] * (len(conds) - 1) + [ind + "}" + tail]
            last = close
        elif tail == " else {":
            eclose = next((k for k in range(close + 1, len(w.lines)) if w.lines[k].startswith(ind + "}")), None)
            if eclose is None or w.lines[eclose][len(ind) + 1 :] not in ("", ";"):
                raise LostAnchor(f"{w._where(i)}: let chain: `else if` chains are not un-chained")
            ebody = w.lines[close + 1 : eclose]
            etail = w.lines[eclose][len(ind) + 1 :]
            new = [ind + prefix + "if " + conds[0] + " {"]
            for c in conds[1:]:
                new.append(ind + "if " + c + " {")
            new += body
            for _ in conds[1:]:
                new += [ind + "} else {"] + ebody + [ind + "}"]
            new += [ind + "} else {"] + ebody + [ind + "}" + etail]
            last = eclose
        else:
            raise LostAnchor(f"{w._where(close)}: let chain: unexpected text after the block")
        w.rewrite_lines("R17-let-chain", i, last, new, note="let chain -> nested ifs (same evaluation order and short-circuiting; a pure else branch is repeated)")
        i += 1
    return


def weave_parse_fn(w, nt, sc):
    canonical_params(w)
    strip_clippy(w)
    unchain_let(w)
    drop_format_args(w)
    if w.count(r"Rc::new\(move \|source_path, source_contents\| \{$"):
        i = w.find(r"^\s*errors\.push\(Rc::new\(move \|source_path, source_contents\| \{$")
        j = w.block_end(i)
        ind = re.match(r"^\s*", w.lines[i]).group(0)
        w.rewrite_lines("R15-error-closure", i, j, [ind + "errors.push(opaque_error_factory());"], note="closure that formats the 'parenthesis was never closed' message (format!/listing/throw) -> opaque ErrorFactory value; only the fact that one is pushed matters")
    if w.name == "parse_group":
        # the name of the inner term is taken from the code; the hint is guarded by the lemma's own preconditions, so
        # it can never fail itself -- a defect shows up as the function's postcondition
        i = w.find(r"^\s*let \((\w+), (\w+), (\w+)\) = try_eval!\(.*\bparse_\w+\(")
        inner = re.match(r"^\s*let \((\w+), ", w.lines[i]).group(1)
        last = [n for n, l in enumerate(w.lines) if re.match(r"^    cache_return!\($", l)]
        if len(last) != 1:
            raise LostAnchor(f"{w.src.rel} fn parse_group: expected one final cache_return!(")
        w.lines[last[0]:last[0]] = sc["parse_group.hint"].replace("$TERM", inner).rstrip("\n").split("\n")
        w.log["annotations"].append({"fn": w.name, "kind": "proof-before", "anchor": "final cache_return!"})
    mark_positions(w, sc)
    w.contract(sc["parse.contract"].replace("$NT", nt), ret="r")


def build_packrat(repo, external=(), canary=None, with_witness=True, boost=False):
    b = Build("packrat")
    log = b.log
    sc = sections(os.path.join(VERIF, "contracts/u5.vrs"))
    parser_rs = Source(repo, "src/parser.rs")
    guard_parser_bindings(parser_rs, repo)
    error_rs = Source(repo, "src/error.rs")
    token_rs = Source(repo, "src/token.rs")
    b.add(PACKRAT_HEADER)
    for name in PACKRAT_MACROS:
        m = Woven(parser_rs, "macro_rules!", name, log)
        weave_macro(m, sc)
        b.add(m.text())
    b.add("verus! {\n")
    b.add(read("spec/parser_prelude.rs"))
    sr = Woven(error_rs, "struct", "SourceRange", log)
    if sr.attrs != ["#[derive(Clone, Copy, Debug)]"]:
        raise LostAnchor(f"src/error.rs struct SourceRange: expected #[derive(Clone, Copy, Debug)], found {sr.attrs}")
    b.add("#[derive(Clone, Copy)]\n" + sr.text())
    # token.rs: the three type definitions, in a module of the same name (the macros say `token::Variant::..`)
    b.add("pub mod token {\nuse super::*;\n")
    for kind, name in (("struct", "Token"), ("enum", "Variant"), ("enum", "TerminatorType")):
        t = Woven(token_rs, kind, name, log)
        if t.attrs != ["#[derive(Clone, Debug)]"]:
            raise LostAnchor(f"src/token.rs {kind} {name}: expected #[derive(Clone, Debug)], found {t.attrs}")
        log["dropped"].append({"site": f"src/token.rs {kind} {name}", "text": t.attrs[0], "why": "tokens are only read through a shared slice; TerminatorType keeps a Clone impl (below)"})
        b.add(t.text())
    b.add(sc["token.clone"])
    b.add("}\nuse token::{TerminatorType, Token};\n")
    c = parser_rs.lines
    ph = [l for l in c if l.startswith("pub const PLACEHOLDER_VARIABLE")]
    if ph != ['pub const PLACEHOLDER_VARIABLE: &str = "_";']:
        raise LostAnchor("src/parser.rs: const PLACEHOLDER_VARIABLE not as expected")
    b.add(ph[0].replace("&str", "&'static str"))  # elided lifetime written out (Verus turns a const into a function)
    sv = Woven(parser_rs, "struct", "SourceVariable", log)
    if sv.attrs != ["#[derive(Clone, Copy, Debug)]"]:
        raise LostAnchor(f"src/parser.rs struct SourceVariable: unexpected attributes {sv.attrs}")
    b.add("#[derive(Clone, Copy)]\n" + sv.text())
    t = Woven(parser_rs, "struct", "Term", log)
    v = Woven(parser_rs, "enum", "Variant", log)
    for w in (t, v):
        if w.attrs != ["#[derive(Clone)]"]:
            raise LostAnchor(f"src/parser.rs {w.kind} {w.name}: expected #[derive(Clone)], found {w.attrs}")
    log["rewrites"].append({"rule": "R1-derive-clone", "site": "src/parser.rs struct Term", "before": "#[derive(Clone)]", "after": "(assumed Clone impl: r == *self)", "note": "Verus gives a derived non-Copy Clone no specification"})
    b.add(t.text())
    b.add(v.text())
    b.add(PARSER_CLONE_IMPLS)
    nt = Woven(parser_rs, "enum", "Nonterminal", log)
    if nt.attrs != ["#[derive(Clone, Copy, Debug, Eq, Hash, PartialEq)]"]:
        raise LostAnchor(f"src/parser.rs enum Nonterminal: unexpected attributes {nt.attrs}")
    log["dropped"].append({"site": "src/parser.rs enum Nonterminal", "text": "Debug, Eq, Hash, PartialEq", "why": "only used by the HashMap, which is modelled by the cache stubs"})
    b.add("#[derive(Clone, Copy)]\n" + nt.text())
    b.add(read("spec/parser_view.rs"))
    b.add(read("spec/packrat_parse_stubs.rs"))
    b.add(read("spec/packrat_spec.rs"))

    sp = Woven(parser_rs, "fn", "span", log)
    b.add_fn(sp, external=False)
    et = Woven(parser_rs, "fn", "error_term", log)
    et.contract(sc["error_term.contract"], ret="r")
    b.add_fn(et, external="error_term" in external)
    fns = packrat_functions(repo)
    for variant, fname in fns:
        w = Woven(parser_rs, "fn", fname, log)
        # canary: a deliberately wrong nonterminal in the contract of one function (must-fail run)
        weave_parse_fn(w, canary[1] if canary and canary[0] == fname else variant, sc)
        b.add_fn(w, external=fname in external)
    # collect_error_factories: what the acceptance test of parse() looks at
    ce = Woven(parser_rs, "fn", "collect_error_factories", log)
    m = re.match(r"^fn collect_error_factories<'a>\((\w+): &mut Vec<ErrorFactory<'a>>, (\w+): &Term<'a>\) \{$", ce.lines[0])
    if not m:
        raise LostAnchor("src/parser.rs fn collect_error_factories: signature not as expected")
    sub = lambda t: t.replace("$OUT", m.group(1)).replace("$TERM", m.group(2))
    ce.before(r"^    for \w+ in &%s\.errors \{$" % m.group(2), sub(sc["collect.ghost"]))
    ce.for_invariant(1, "it", sub(sc["collect.invariant"]), regex=r"^    for \w+ in &%s\.errors \{$" % m.group(2))
    ce.contract(sub(sc["collect.contract"]))
    b.add_fn(ce, external="collect_error_factories" in external)
    # parse(): its prefix up to [tag:error_check]; the remainder is cut (R16)
    pa = Woven(parser_rs, "fn", "parse", log)
    weave_parse_prefix(pa, sc)
    b.add_fn(pa, external="parse" in external)
    if with_witness:
        b.add(read("spec/packrat_witness.rs"))
    if canary and canary[0] == "*calls*":
        # concrete-call canary: the contracts of all functions together are not contradictory
        calls = "".join(f"    let r = {fname}(cache, tokens, start);\n" for _, fname in fns)
        b.add(sc["canary.head"] + calls + "    assert(false);\n}\n")
    b.add("} // verus!\nfn main() {}\n")
    return b


# ---------------------------------------------------------------------------------------------
# U6: resolve_variables + collect_definitions (C08)

RESOLVE_HEADER = (
    "// GENERATED by /verif/weave on every run from /repo's working tree -- do not edit.\n"
    "#![allow(unused_imports, dead_code, unused_variables, non_snake_case, unused_mut, unused_parens, unused_braces, unused_macros, unused_assignments)]\n"
    "use vstd::prelude::*;\nuse std::rc::Rc;\nuse std::cell::RefCell;\nuse std::convert::TryFrom;\nuse std::collections::HashSet;\n"
    "verus! {\n"
)

TERM_VARIANT_IMPORT = VARIANT_IMPORT.replace("use crate::Variant::{", "use self::Variant::{")


def r18_simple(w, start):
    """R18 (scope guard, simple form): in an arm without early exits
         let context_cell = RefCell::new(context);
         defer! {{ context_cell.borrow_mut().remove(X); }};
         ..
         let mut guard = context_cell.borrow_mut();
         .. statements using `&mut guard` ..
         <tail expression using `&mut guard`>
       becomes   .. ; .. statements using `context` ..; let result = <tail expression using `context`>; context.remove(X); result"""
    i = w.find(r"^\s*let context_cell = RefCell::new\(context\);$", start=start)
    m = re.match(r"^\s*defer! \{\{ context_cell\.borrow_mut\(\)\.remove\((.*)\); \}\};$", w.lines[i + 1])
    if not m:
        raise LostAnchor(f"{w._where(i + 1)}: scope guard: expected `defer! {{{{ context_cell.borrow_mut().remove(..); }}}};`")
    removed = m.group(1)
    g = w.find(r"^\s*let mut guard = context_cell\.borrow_mut\(\);$", start=i)
    # the arm: the enclosing `Variant::..  => {` block
    a = max(k for k in range(0, i) if re.match(r"^        Variant::\w+.* => \{$", w.lines[k]))
    z = w.block_end(a)
    if not (i < g < z):
        raise LostAnchor(f"{w._where(i)}: scope guard: borrow of the guard not found in the same arm")
    k = None
    for c in range(z - 1, g, -1):
        if re.match(r"^            term::Term \{$", w.lines[c]) and w.block_end(c) == z - 1:
            k = c
            break
    if k is None:
        raise LostAnchor(f"{w._where(g)}: scope guard: the arm does not end in a `term::Term {{ .. }}` tail expression")
    e = z - 1
    ind = re.match(r"^\s*", w.lines[k]).group(0)
    for l in w.lines[i + 2 : e + 1]:
        if re.search(r"\b(return|break|continue)\b|\?;", l.split("//")[0]):
            raise LostAnchor(f"{w._where(i)}: scope guard: early exit inside the guarded block")
    between = [l.replace("&mut guard", "context") for l in w.lines[g + 1 : k]]
    body = [l.replace("&mut guard", "context") for l in w.lines[k : e + 1]]
    body[0] = ind + "let result = " + body[0].lstrip()
    body[-1] = body[-1] + ";"
    keep = [l for n, l in enumerate(w.lines[i:g]) if (i + n) not in (i, i + 1)]
    w.rewrite_lines("R18-scope-guard", i, e, keep + between + body + [ind + f"context.remove({removed});", ind + "result"],
                    note="scopeguard idiom: the deferred statement runs when the block is left, i.e. after the tail expression (no early exit in the block); RefCell only serves to share `context` with the guard")
    return i


def r18_group(w, a):
    """R18 (scope guard, tuple state) for the Let arm: `RefCell::new((context, vec![]))`, a deferred loop over the
    second component, and `let (X, Y) = &mut (*guard);` re-borrows -> X is `context`, Y a local Vec, the deferred
    loop is appended after the tail expression."""
    i = w.find(r"^\s*let context_cell = RefCell::new\(\(context, vec!\[\]\)\);$", start=a)
    d = i + 1
    if w.lines[d].strip() != "defer! {{":
        raise LostAnchor(f"{w._where(d)}: scope guard: `defer! {{{{` expected")
    de = w.block_end(d)
    defer_body = w.lines[d + 1 : de]
    m = None
    for l in defer_body:
        m = m or re.match(r"^\s*let \((\w+), (\w+)\) = &mut \(\*guard\);$", l)
    if not m:
        raise LostAnchor(f"{w._where(d)}: scope guard: destructuring of the guarded pair not found")
    ctx_alias, vec_name = m.group(1), m.group(2)
    ind = re.match(r"^\s*", w.lines[i]).group(0)
    is_borrow = lambda l: bool(re.match(r"^\s*let mut guard = context_cell\.borrow_mut\(\);$", l) or re.match(r"^\s*let \(\w+, (\w+|_)\) = &mut \(\*guard\);$", l))
    loop = [l[4:] for l in defer_body if not is_borrow(l) and l.strip() != ""]
    if not re.search(r" in %s \{$" % vec_name, loop[0]):
        raise LostAnchor(f"{w._where(d)}: scope guard: deferred loop over `{vec_name}` expected")
    loop[0] = loop[0].replace(f" in {vec_name} {{", f" in {vec_name}.iter() {{")
    loop = [re.sub(r"\b%s\b" % ctx_alias, "context", l) for l in loop]
    w.rewrite_lines("R18-scope-guard", i, de, [ind + f"let mut {vec_name} = vec![];"], note="guarded pair (context, names added): the second component becomes a local")
    z = w.block_end(a)
    k = a
    while k <= z:
        l = w.lines[k]
        if is_borrow(l):
            w.rewrite_lines("R18-scope-guard", k, k, [], note="re-borrow of the guarded pair dropped")
            z -= 1
            continue
        if re.search(r"\b(return|break|continue)\b|\?;", l.split("//")[0]):
            raise LostAnchor(f"{w._where(k)}: scope guard: early exit inside the guarded block")
        if re.search(r"\b%s\b" % ctx_alias, l):
            w.lines[k] = re.sub(r"\b%s\b" % ctx_alias, "context", l)
        k += 1
    t0 = None
    for k in range(z - 1, a, -1):
        if re.match(r"^            term::Term \{$", w.lines[k]):
            t0 = k
            break
    if t0 is None or w.block_end(t0) != z - 1:
        raise LostAnchor(f"{w._where(a)}: scope guard: tail expression of the Let arm not found")
    body = w.lines[t0:z]
    body[0] = "            let result = " + body[0].lstrip()
    body[-1] += ";"
    w.rewrite_lines("R18-scope-guard", t0, z - 1, body + loop + ["            result"], note="deferred loop appended after the tail expression")
    return vec_name


def enumerate_to_index(w, a):
    """R4: `for (i, PAT) in v.iter().enumerate() {` -> `for i in 0..v.len() {` + `let PAT = &v[i];`"""
    k = a
    names = []
    while k < len(w.lines) and k <= w.block_end(a):
        l = w.lines[k]
        mi = re.match(r"^(\s*)for (\w+) in 0\.\.(\w+)\.len\(\) \{$", l)
        if mi and k + 1 < len(w.lines) and re.match(r"^\s*let \(.*\) = &%s\[%s\];$" % (mi.group(3), mi.group(2)), w.lines[k + 1]):
            names.append((mi.group(2), mi.group(3)))     # already an index loop of the expected shape
            k += 1
            continue
        mr = re.match(r"^(\s*)for (\(.*\)) in &(\w+) \{$", l)
        if mr:
            # a loop over the elements only: give it an index (the hints speak about positions)
            idx = f"loop_index_{len(names) + 1}"
            w.rewrite_lines("R4-enumerate", k, k, [f"{mr.group(1)}for {idx} in 0..{mr.group(3)}.len() {{", f"{mr.group(1)}    let {mr.group(2)} = &{mr.group(3)}[{idx}];"], note="`for PAT in &v` as an index loop with a fresh index")
            names.append((idx, mr.group(3)))
            k += 1
            continue
        mm = re.match(r"^(\s*)for \((\w+), (\(.*\))\) in (\w+)\.iter\(\)\.enumerate\(\) \{$", l)
        if mm:
            w.rewrite_lines("R4-enumerate", k, k, [f"{mm.group(1)}for {mm.group(2)} in 0..{mm.group(4)}.len() {{", f"{mm.group(1)}    let {mm.group(3)} = &{mm.group(4)}[{mm.group(2)}];"], note="enumerate() over a slice iterator as an index loop")
            names.append((mm.group(2), mm.group(4)))
        elif re.match(r"^(\s*)for \((\w+), (\(.*\))\) in$", l) and k + 2 < len(w.lines) and re.match(r"^\s*(\w+)\.iter\(\)\.enumerate\(\)$", w.lines[k + 1]) and w.lines[k + 2].strip() == "{":
            m1 = re.match(r"^(\s*)for \((\w+), (\(.*\))\) in$", l)
            v = re.match(r"^\s*(\w+)\.iter", w.lines[k + 1]).group(1)
            w.rewrite_lines("R4-enumerate", k, k + 2, [f"{m1.group(1)}for {m1.group(2)} in 0..{v}.len() {{", f"{m1.group(1)}    let {m1.group(3)} = &{v}[{m1.group(2)}];"], note="enumerate() over a slice iterator as an index loop")
            names.append((m1.group(2), v))
        k += 1
    return names


def weave_resolve(w, sc):
    canonical_params(w)
    strip_clippy(w)
    unchain_let(w)
    w.rewrite_regex("R2-type-substitution", r"context: &mut HashMap<&'a str, usize>,", "context: &mut Context<'a>,", expect=1, note="the name -> depth map is modelled by stubs with HashMap's method names")
    w.rewrite_regex("R2-type-substitution", r"source_path: Option<&'a Path>,", "source_path: SourcePath<'a>,", expect=1, note="only passed on to the error constructors")
    i = 0
    while i < len(w.lines):
        if re.match(r"^\s*errors\.push\(throw::<Error>\($", w.lines[i]):
            j = w.block_end(i)
            ind = re.match(r"^\s*", w.lines[i]).group(0)
            w.rewrite_lines("R15-error-value", i, j, [ind + "errors.push(opaque_error());"], note="the error value (message, listing) is outside the property; only the fact that one is pushed matters")
        i += 1
    w.rewrite_regex("R9-fresh-hole", r"Rc::new\(RefCell::new\(None\)\)", "fresh_hole()", note="a new cell holding None is an unresolved hole (hole model)")
    # Lambda arm: Option::map with a closure that captures &mut state -> match
    i = w.find(r"^\s*let (\w+) = (\w+)\.as_ref\(\)\.map\(\|(\w+)\| \{$")
    m = re.match(r"^(\s*)let (\w+) = (\w+)\.as_ref\(\)\.map\(\|(\w+)\| \{$", w.lines[i])
    j = w.block_end(i)
    ind = m.group(1)
    w.rewrite_lines("R10-option-map", i, j, [f"{ind}let {m.group(2)} = match {m.group(3)}.as_ref() {{", f"{ind}    Some({m.group(4)}) => Some({{"] + w.lines[i + 1 : j] + [f"{ind}    }}),", f"{ind}    None => None,", f"{ind}}};"],
                    note="closure capturing `&mut` state (unsupported by Verus) as the equivalent match")
    # scope guards of the Lambda and Pi arms (an arm that is already straight-line needs no rewrite)
    p = 0
    while w.count(r"^\s*let context_cell = RefCell::new\(context\);$"):
        p = r18_simple(w, 0)
    i = w.find(r"^\s*(\w+)\.map_or_else\($")
    j = w.block_end(i)
    ind = re.match(r"^\s*", w.lines[i]).group(0)
    opt = re.match(r"^\s*(\w+)\.map_or_else", w.lines[i]).group(1)
    if not (w.lines[i + 1].strip() == "|| {" and w.lines[j - 2].strip() == "}," and w.lines[j - 1].strip() == "Rc::new,"):
        raise LostAnchor(f"{w._where(i)}: map_or_else(|| {{..}}, Rc::new) expected")
    w.rewrite_lines("R10-option-map", i, j, [f"{ind}match {opt} {{", f"{ind}    Some(some_value) => Rc::new(some_value),", f"{ind}    None => {{"] + w.lines[i + 2 : j - 2] + [f"{ind}    }}", f"{ind}}},"],
                    note="map_or_else(default closure, Rc::new) as the equivalent match")
    a = w.find(r"^        Variant::Let\(_, _, _, _\) => \{$")
    vec_name = r18_group(w, a)
    loops = enumerate_to_index(w, a)
    return vec_name, loops


def build_resolve(repo, external=(), canary=None, with_witness=True, boost=False):
    b = Build("resolve")
    log = b.log
    sc = sections(os.path.join(VERIF, "contracts/u6.vrs"))
    if canary:
        sc = dict(sc)
        sc[canary[0] + ".contract"] = sc[canary[1]]
    parser_rs = Source(repo, "src/parser.rs")
    guard_parser_bindings(parser_rs, repo)
    term_rs = Source(repo, "src/term.rs")
    error_rs = Source(repo, "src/error.rs")
    b.add(RESOLVE_HEADER)
    b.add(read("spec/core_prelude.rs"))
    b.add(read("spec/resolve_prelude.rs"))
    sr = Woven(error_rs, "struct", "SourceRange", log)
    if sr.attrs != ["#[derive(Clone, Copy, Debug)]"]:
        raise LostAnchor(f"src/error.rs struct SourceRange: expected #[derive(Clone, Copy, Debug)], found {sr.attrs}")
    b.add("#[derive(Clone, Copy)]\n" + sr.text())
    # the core term (output type) lives in a module of its own name, as the real code writes `term::Term`
    t = Woven(term_rs, "struct", "Term", log)
    v = Woven(term_rs, "enum", "Variant", log)
    strip_clippy(v)
    for w in (t, v):
        if w.attrs != ["#[derive(Clone, Debug)]"]:
            raise LostAnchor(f"src/term.rs {w.kind} {w.name}: expected #[derive(Clone, Debug)], found {w.attrs}")
    log["rewrites"].append({"rule": "R1-derive-clone", "site": "src/term.rs struct Term", "before": "#[derive(Clone, Debug)]", "after": "(assumed Clone impl: r == *self)", "note": "Verus gives a derived non-Copy Clone no specification"})
    b.add("pub mod term {\nuse super::*;\n")
    b.add(t.text())
    b.add(v.text())
    b.add(CLONE_IMPLS)
    b.add(TERM_VARIANT_IMPORT)
    b.add(read("spec/core_prelude_term.rs"))
    b.add(read("spec/core_spec.rs"))
    b.add(read("spec/resolve_holes.rs"))
    b.add("}\n")
    sv = Woven(parser_rs, "struct", "SourceVariable", log)
    if sv.attrs != ["#[derive(Clone, Copy, Debug)]"]:
        raise LostAnchor(f"src/parser.rs struct SourceVariable: unexpected attributes {sv.attrs}")
    b.add("#[derive(Clone, Copy)]\n" + sv.text())
    pt = Woven(parser_rs, "struct", "Term", log)
    pv = Woven(parser_rs, "enum", "Variant", log)
    for w in (pt, pv):
        if w.attrs != ["#[derive(Clone)]"]:
            raise LostAnchor(f"src/parser.rs {w.kind} {w.name}: expected #[derive(Clone)], found {w.attrs}")
    b.add(pt.text())
    b.add(pv.text())
    b.add(PARSER_CLONE_IMPLS)
    ph = [l for l in parser_rs.lines if l.startswith("pub const PLACEHOLDER_VARIABLE")]
    if ph != ['pub const PLACEHOLDER_VARIABLE: &str = "_";']:
        raise LostAnchor("src/parser.rs: const PLACEHOLDER_VARIABLE not as expected")
    b.add(ph[0].replace("&str", "&'static str"))
    b.add(read("spec/parser_view.rs"))
    b.add(read("spec/resolve_spec.rs"))
    b.add(read("spec/resolve_context.rs"))
    b.add(read("spec/resolve_lemmas.rs"))

    cd = Woven(parser_rs, "fn", "collect_definitions", log)
    strip_clippy(cd)
    m = re.match(r"^    (\w+): &mut Vec<\(SourceVariable<'a>, Option<Rc<Term<'a>>>, Rc<Term<'a>>\)>,$", cd.lines[1])
    m2 = re.match(r"^    (\w+): Rc<Term<'a>>,$", cd.lines[2])
    if not (m and m2):
        raise LostAnchor("src/parser.rs fn collect_definitions: signature not as expected")
    sub = lambda x: x.replace("$DEFS", m.group(1)).replace("$TERM", m2.group(1))
    cd.contract(sub(sc["collect_definitions.contract"]), ret="r")
    pat = cd.find(r"Variant::Let\((\w+), (\w+), (\w+), (\w+)\)")
    ann, body_name = re.search(r"Variant::Let\(\w+, (\w+), \w+, (\w+)\)", cd.lines[pat]).groups()
    cd.rewrite_regex("R1-derive-clone", r"\b%s\.clone\(\)" % ann, "clone_option_rc(%s)" % ann, expect=1, note="Option<Rc<Term>>::clone returns an equal value (vstd's Option::clone spec is too weak for Rc payloads)")
    cd.body_first(sub(sc["collect_definitions.first"]))
    # the hint after the recursive call is attached where such a tail call exists (without it the contract simply fails)
    tail = r"^\s*collect_definitions\(%s, [^;]*\)$" % m.group(1)
    if cd.count(tail):
        cd.bind_tail(tail, "collected", sub(sc["collect_definitions.tail"]).replace("$BODY", body_name))
    b.add_fn(cd, external="collect_definitions" in external)

    rv = Woven(parser_rs, "fn", "resolve_variables", log)
    weave_resolve_contract(rv, sc)
    b.add_fn(rv, external="resolve_variables" in external)
    # second half of the unit: the definition-order check that parse() runs on the resolved term
    b.add(read("spec/resolve_defcheck.rs"))
    cds = Woven(parser_rs, "fn", "check_definitions", log)
    weave_check_definitions(cds, sc)
    b.add_fn(cds, external="check_definitions" in external)
    cdn = Woven(parser_rs, "fn", "check_definition", log)
    weave_check_definition(cdn, sc)
    b.add_fn(cdn, external="check_definition" in external)
    if with_witness:
        b.add(read("spec/resolve_witness.rs"))
        b.add(sc["canary.calls"])
    b.add("} // verus!\nfn main() {}\n")
    return b


def error_pushes_opaque(w):
    """R15: `errors.push(throw::<Error>( .. ))` -> `errors.push(opaque_error())`"""
    i = 0
    n = 0
    while i < len(w.lines):
        if re.match(r"^\s*errors\.push\(throw::<Error>\($", w.lines[i]):
            j = w.block_end(i)
            ind = re.match(r"^\s*", w.lines[i]).group(0)
            w.rewrite_lines("R15-error-value", i, j, [ind + "errors.push(opaque_error());"], note="the error value (message, listing) is outside the property; only the fact that one is pushed matters")
            n += 1
        i += 1
    return n


def weave_check_definitions(w, sc):
    strip_clippy(w)
    w.rewrite_regex("R2-type-substitution", r"source_path: Option<&'a Path>,", "source_path: SourcePath<'a>,", expect=1, note="only passed on to the error constructors")
    w.contract(sc["check_definitions.contract"])
    w.body_first(sc["check_definitions.first"])
    # R9: the hole read (under the precondition every visited hole is unresolved: the recursion through it is dead)
    n = 0
    for k, l in enumerate(w.lines):
        new = re.sub(r"\{ (\w+)\.borrow\(\)\.clone\(\) \}", r"term::hole_content(\1)", l)
        if new != l:
            w.log["rewrites"].append({"rule": "R9-hole-read", "site": w._where(k), "before": l, "after": new, "note": "RefCell read + clone as a stub with the assumed frozen-content contract"})
            w.lines[k] = new
            n += 1
    if n != 1:
        raise LostAnchor(f"{w.src.rel} fn check_definitions: expected one hole read, found {n}")
    # R23: `assert_eq!(A, B);` -> `if A != B { panic!(..); }` (Verus does not support the macro's expansion; a panic! is an
    # unreachability obligation, exactly what the assertion demands)
    if w.rewrite_regex("R23-assert-eq", r"^(\s*)assert_eq!\(([^,]+), ([^,]+)\);$", r'\1if \2 != \3 { panic!("assertion failed: left == right"); }', note="assert_eq!(a, b) panics iff a != b; written as an explicit test + panic!, which Verus must prove unreachable") != 1:
        raise LostAnchor(f"{w.src.rel} fn check_definitions: expected one assert_eq!")
    i = w.find(r"^\s*for \w+ in 0\.\.definitions\.len\(\) \{$")
    w.lines[i:i] = ["            let ghost e0 = errors@;"]
    w.for_invariant(1, "it", sc["check_definitions.loop"], regex=r"^\s*for \w+ in 0\.\.definitions\.len\(\) \{$")


def weave_check_definition(w, sc):
    strip_clippy(w)
    w.rewrite_regex("R2-type-substitution", r"source_path: Option<&'a Path>,", "source_path: SourcePath<'a>,", expect=1, note="only passed on to the error constructors")
    w.contract(sc["check_definition.contract"])
    w.body_first(sc["check_definition.first"])
    i = w.find(r"^\s*if visited\.insert\((\w+)\) \{$")
    di = re.match(r"^\s*if visited\.insert\((\w+)\) \{$", w.lines[i]).group(1)
    w.lines[i + 1 : i + 1] = sc["check_definition.inserted"].replace("$DI", di).rstrip("\n").split("\n")
    w.lines[i:i] = sc["check_definition.before_insert"].rstrip("\n").split("\n")
    w.log["annotations"].append({"fn": w.name, "kind": "proof hints", "anchor": "around visited.insert(..)"})
    if error_pushes_opaque(w) != 1:
        raise LostAnchor(f"{w.src.rel} fn check_definition: expected one `errors.push(throw::<Error>(..))`")
    # R22: by-value iteration of a HashSet<usize> -> iteration by reference + copy of the element
    i = w.find(r"^    for (\w+) in (\w+) \{$")
    m = re.match(r"^    for (\w+) in (\w+) \{$", w.lines[i])
    var, setv = m.group(1), m.group(2)
    w.rewrite_lines("R22-hashset-by-value", i, i, ["    let ghost e0 = errors@;", f"    for {var}_ref in it: {setv}.iter()"] + sc["check_definition.loop"].rstrip("\n").split("\n") + ["    {", f"        let {var} = *{var}_ref;"],
                    note="`for x in set` (by value, consumes the set, which is not used afterwards) as `for x_ref in set.iter()` + copy of the usize element; same elements, same (unspecified) order")


def weave_resolve_contract(w, sc):
    vec_name, loops = weave_resolve(w, sc)
    a = w.find(r"^        Variant::Let\(_, _, _, _\) => \{$")
    # the two loops the hints speak about: the one that inserts the names and the one that resolves the definitions
    # (any other loop of the arm is left without invariant)
    heads = [k for k in range(a, w.block_end(a)) if re.match(r"^\s*for \w+ in 0\.\.\w+\.len\(\) \{$", w.lines[k])]
    def loop_with(pattern):
        for f in heads:
            if any(re.search(pattern, l) for l in w.lines[f : w.block_end(f) + 1]):
                mm = re.match(r"^\s*for (\w+) in 0\.\.(\w+)\.len\(\) \{$", w.lines[f])
                return (mm.group(1), mm.group(2), f)
        raise LostAnchor(f"{w.src.rel} fn resolve_variables: no loop of the Let arm contains /{pattern}/")
    loops = [loop_with(r"\.insert\("), loop_with(r"\bresolve_variables\(")]
    # names the hints must mention, taken from the code
    c = w.find(r"^\s*let (\w+) = collect_definitions\(&mut (\w+), Rc::new\(term\.clone\(\)\)\);$", start=a)
    inner, defs = re.match(r"^\s*let (\w+) = collect_definitions\(&mut (\w+), ", w.lines[c]).groups()
    # the depth of the group: the single-line `let X = ..;` between the first loop and the vector of results
    l1 = loops[0][2]
    l1e = w.block_end(l1)
    cand = [k for k in range(c + 1, l1) if re.match(r"^            let (\w+) = depth \+ [^;]*;$", w.lines[k])]
    nd = cand[0] if cand else w.find(r"^            let (\w+) = [^;]*;$", start=l1e + 1)
    newd = re.match(r"^\s*let (\w+) = ", w.lines[nd]).group(1)
    rs = w.find(r"^\s*let mut (\w+) = vec!\[\];$", start=l1e + 1)
    nd = max(nd, l1e)    # the hint that follows goes after the first loop in either case
    res = re.match(r"^\s*let mut (\w+) = ", w.lines[rs]).group(1)
    (i1, _, h1), (i2, _, h2) = loops
    sub = lambda text, i="": text.replace("$DEFS", defs).replace("$ADDED", vec_name).replace("$RES", res).replace("$NEWD", newd).replace("$INNER", inner).replace("$I", i)
    ins = lambda at, text: w.lines.__setitem__(slice(at, at), text.rstrip("\n").split("\n"))
    # work bottom-up so that earlier indices stay valid
    f3 = w.find(r"^\s*for (\w+) in %s\.iter\(\) \{$" % vec_name, start=a)
    e3 = w.block_end(f3)
    ins(e3 + 1, sub(sc["let.end"]))
    ins(f3 + 1, sub(sc["let.loop3.first"]))
    m3 = re.match(r"^(\s*for \w+ in )(.*) \{$", w.lines[f3])
    w.lines[f3 : f3 + 1] = [m3.group(1) + "it: " + m3.group(2)] + sub(sc["let.loop3.invariant"]).rstrip("\n").split("\n") + ["            {"]
    r0 = w.find(r"^            let result = term::Term \{$", start=a)
    r1 = w.block_end(r0)
    ins(r1 + 1, sub(sc["let.after_result"]))
    ins(r0, sub(sc["let.before_result"]))
    # loop 2
    f2 = h2
    e2 = w.block_end(f2)
    p2 = w.find(r"^\s*%s\.push\(\($" % res, start=f2)
    ra = w.find(r"^\s*let (\w+) = match (\w+) \{$", start=f2)
    rann = re.match(r"^\s*let (\w+) = match", w.lines[ra]).group(1)
    ins(w.block_end(p2) + 1, sub(sc["let.loop2.last"], i2).replace("$RANN", rann))
    ins(w.block_end(ra) + 1, sub(sc["let.loop2.mid"], i2).replace("$RANN", rann))
    ins(f2 + 2, sub(sc["let.loop2.first"], i2))
    m2 = re.match(r"^(\s*for \w+ in )(.*) \{$", w.lines[f2])
    w.lines[f2 : f2 + 1] = [m2.group(1) + "it2: " + m2.group(2)] + sub(sc["let.loop2.invariant"], i2).rstrip("\n").split("\n") + ["            {"]
    ins(nd + 1, sub(sc["let.after_loop1"]))
    # loop 1
    f1 = h1
    e1 = w.block_end(f1)
    ins(e1, sub(sc["let.loop1.last"], i1))
    pushes = [k for k in range(f1, e1) if re.match(r"^\s*%s\.push\((.*)\);$" % vec_name, w.lines[k])]
    if pushes:
        p1 = pushes[0]
        name = re.match(r"^\s*\w+\.push\((.*)\);$", w.lines[p1]).group(1)
        ins(p1 + 1, sub(sc["let.loop1.pushed"], i1).replace("$NAME", name))
    ins(f1 + 2, sub(sc["let.loop1.first"], i1))
    m1 = re.match(r"^(\s*for \w+ in )(.*) \{$", w.lines[f1])
    w.lines[f1 : f1 + 1] = [m1.group(1) + "it1: " + m1.group(2)] + sub(sc["let.loop1.invariant"], i1).rstrip("\n").split("\n") + ["            {"]
    ins(c + 1, sub(sc["let.after_collect"]))
    w.log["annotations"].append({"fn": w.name, "kind": "let-arm hints and loop invariants", "count": 12})
    la = w.find(r"^        Variant::Lambda\(\w+, \w+, \w+, \w+\) => \{$")
    lr = w.find(r"^            let result = term::Term \{$", start=la)
    if lr > w.block_end(la):
        raise LostAnchor(f"{w.src.rel} fn resolve_variables: result of the Lambda arm not found")
    ins(w.block_end(lr) + 1, sc["lambda.after_result"])
    w.contract(sc["resolve_variables.contract"], ret="r")
    w.body_first(sc["resolve_variables.first"])


# ---------------------------------------------------------------------------------------------
# U7: the whole of parse(); every function it calls appears as a stub carrying its own (verified elsewhere) contract

CLASS_OF = {"reassociate_applications": "Class::Apps", "reassociate_products_and_quotients": "Class::Muls", "reassociate_sums_and_differences": "Class::Adds"}


def weave_parse_full(w, sc, flavor):
    canonical_params(w)
    strip_clippy(w)
    unchain_let(w)
    if w.lines[0].startswith("pub fn parse<"):
        # visibility only: a public function's contract may not mention private spec functions
        w.lines[0] = w.lines[0][4:]
        w.log["dropped"].append({"site": "src/parser.rs fn parse", "text": "pub", "why": "visibility only (the contract mentions private spec functions)"})
    w.rewrite_regex("R2-type-substitution", r"source_path: Option<&'a Path>,", "source_path: SourcePath<'a>,", expect=1, note="only passed on to the error constructors")
    i = w.find(r"^    let mut (\w+) = Cache::new\(\);$")
    cache = re.match(r"^    let mut (\w+) = ", w.lines[i]).group(1)
    w.rewrite_lines("R14-cache", i, i, [f"    let mut {cache} = cache_new();"], note="HashMap::new() -> stub: an empty memo table")
    i = w.find(r"^    let \((\w+), (?:mut )?(\w+), _\) = parse_term\(&mut %s, (\w+), 0\);$" % cache)
    term, nxt, toks = re.match(r"^    let \((\w+), (?:mut )?(\w+), _\) = parse_term\(&mut \w+, (\w+), 0\);$", w.lines[i]).groups()
    i = w.find(r"^        return Err\(\w+$")
    j = statement_end(w, i)
    w.rewrite_lines("R16-parse-exits", i, j, ["        return parse_rejected();"], note="the Err(..) value (error factories applied to the source) is outside the property")
    # the [tag:error_check] block: the `if .. {` that encloses the rejecting exit
    rj = w.find(r"^        return parse_rejected\(\);$")
    k = max(x for x in range(0, rj) if re.match(r"^    if .* \{$", w.lines[x]))
    e = w.block_end(k)
    if not (k < rj < e):
        raise LostAnchor(f"{w.src.rel} fn parse: the block around the rejecting exit not found")
    w.lines[e + 1 : e + 1] = sc["parse.checked." + flavor].replace("$TERM", term).replace("$NEXT", nxt).replace("$TOKENS", toks).rstrip("\n").split("\n")
    # the re-association passes: one statement with nested calls, or several statements -- in either case a chain
    # term -> .. -> the tree handed on; nested calls are bound to locals (R8), a proof hint follows each call
    stmts = [k for k in range(e + 1, len(w.lines)) if re.match(r"^    let (\w+) = reassociate_\w+\(", w.lines[k])]
    if not stmts:
        raise LostAnchor(f"{w.src.rel} fn parse: no re-association statement found after [tag:error_check]")
    hp = lambda c, a, o: sc["parse.pass"].replace("$C", CLASS_OF[c]).replace("$IN", a).replace("$OUT", o).rstrip("\n").split("\n")
    fns, names, prev = [], [], term
    for i in reversed(stmts):       # bottom-up so that the indices of the earlier statements stay valid
        pass
    chain = []                      # [(statement first line, last line, out name, [fn outermost first], innermost argument)]
    for i in stmts:
        j = statement_end(w, i)
        flat = "".join(l.strip() for l in w.lines[i : j + 1])
        m = re.match(r"^let (\w+) = (.*);$", flat)
        if not m:
            raise LostAnchor(f"{w._where(i)}: the re-association statement is not as expected")
        out, expr = m.group(1), m.group(2)
        fs = []
        while True:
            mm = re.match(r"^(reassociate_\w+)\(None,\s*&(.*?),?\)$", expr)
            if not mm:
                break
            fs.append(mm.group(1))
            expr = mm.group(2)
        if not fs or any(f not in CLASS_OF for f in fs) or not re.match(r"^\w+$", expr):
            raise LostAnchor(f"{w._where(i)}: the nested re-association calls are not as expected")
        chain.append((i, j, out, fs, expr))
    expect = term
    for (_, _, out, fs, inner) in chain:
        if inner != expect:
            raise LostAnchor(f"{w.src.rel} fn parse: the re-association statements do not form a chain starting at `{term}`")
        expect = out
    p3 = chain[-1][2]
    n_pass = 0
    for (i, j, out, fs, inner) in reversed(chain):
        pass
    # emit, bottom-up
    total = sum(len(fs) for (_, _, _, fs, _) in chain)
    counter = total
    emitted = {}
    for (i, j, out, fs, inner) in reversed(chain):
        order = list(reversed(fs))                  # innermost (first applied) first
        outs = [f"pass_{counter - len(order) + n + 1}" for n in range(len(order) - 1)] + [out]
        ins_ = [inner] + outs[:-1]
        lines = []
        for n, f in enumerate(order):
            lines += [f"    let {outs[n]} = {f}(None, &{ins_[n]});"] + hp(f, ins_[n], outs[n])
        if (i, j, out, fs, inner) == chain[-1]:
            lines += sc["parse.passes"].replace("$P3", p3).rstrip("\n").split("\n")
        if len(order) > 1 or j > i:
            w.rewrite_lines("R8-hoist-argument", i, j, lines, note="nested call arguments bound to locals, innermost first (same evaluation order); proof hints follow each call")
        else:
            w.lines[i : j + 1] = lines
            w.log["annotations"].append({"fn": w.name, "kind": "proof-after", "anchor": "re-association call"})
        emitted[i] = list(zip(order, outs))
        counter -= len(order)
    seq = [x for (i, _, _, _, _) in chain for x in emitted[i]]      # [(fn, out name)] in application order
    fns = [f for f, _ in seq]
    names = [o for _, o in seq]
    # the classes and intermediate trees named in the final assertion (a missing pass repeats the previous tree)
    while len(fns) < 3:
        fns.append(fns[-1]); names.append(names[-1])
    f1, f2, f3 = fns[:3]
    p1n, p2n = names[0], names[1]
    # the initial context: the iterator chain, or the equivalent explicit loop
    if w.count(r"^    let mut (\w+): HashMap<&'a str, usize> = (\w+)$"):
        i = w.find(r"^    let mut (\w+): HashMap<&'a str, usize> = (\w+)$")
        cvar, src = re.match(r"^    let mut (\w+): HashMap<&'a str, usize> = (\w+)$", w.lines[i]).groups()
        j = statement_end(w, i)
        flat = "".join(l.strip() for l in w.lines[i + 1 : j + 1])
        if flat != ".iter().enumerate().map(|(i, variable)| (*variable, i)).collect();":
            raise LostAnchor(f"{w._where(i)}: construction of the initial context not as expected")
    else:
        i = w.find(r"^    let mut (\w+)(: HashMap<&'a str, usize>)? = HashMap::new\(\);$")
        cvar = re.match(r"^    let mut (\w+)", w.lines[i]).group(1)
        j = i + 1
        while w.lines[j].strip() == "" or w.lines[j].strip().startswith("//"):
            j += 1
        mf = re.match(r"^    for \((\w+), (\w+)\) in (\w+)\.iter\(\)\.enumerate\(\) \{$", w.lines[j])
        if not (mf and w.lines[j + 1].strip() == f"{cvar}.insert(*{mf.group(2)}, {mf.group(1)});" and w.lines[j + 2] == "    }"):
            raise LostAnchor(f"{w._where(i)}: construction of the initial context not as expected")
        src = mf.group(3)
        j = j + 2
    w.rewrite_lines("R19-initial-context", i, j, [f"    let mut {cvar}: Context<'a> = context_from_names({src});"], note="(name, index) pairs of the `context` slice collected into a HashMap (iterator chain or explicit loop) -> stub building the map name_i -> i")
    # the end
    i = w.find(r"^    let (\w+) = resolve_variables\($")
    resolved = re.match(r"^    let (\w+) = ", w.lines[i]).group(1)
    ce = statement_end(w, i)
    call = "".join(l.strip() for l in w.lines[i : ce + 1])
    ma = re.match(r"^let \w+ = resolve_variables\(\w+,\w+,&(\w+),.*,&mut (\w+),&mut (\w+),\);$", call)
    if not ma:
        raise LostAnchor(f"{w._where(i)}: the call of resolve_variables is not as expected")
    arg, errs = ma.group(1), ma.group(3)
    ctxv = ma.group(2)
    # the accepting exit: the last `Ok(..)` of the function -- either the then-branch of an `if .. {` (the hint goes
    # before the `if`) or the tail expression (the hint goes right before it)
    oks = [k for k in range(ce + 1, len(w.lines)) if re.match(r"^\s+Ok\(", w.lines[k])]
    if not oks:
        raise LostAnchor(f"{w.src.rel} fn parse: the accepting exit `Ok(..)` not found")
    k = oks[-1]
    if re.match(r"^        Ok\(", w.lines[k]) and re.match(r"^    if .* \{$", w.lines[k - 1]):
        k = k - 1
    elif not re.match(r"^    Ok\(", w.lines[k]):
        raise LostAnchor(f"{w._where(k)}: the accepting exit is not in a recognised position")
    fill = lambda t: t.replace("$ERRORS", errs).replace("$TOKENS", toks).replace("$TERM", term).replace("$P1", p1n).replace("$P2", p2n).replace("$P3", p3).replace("$ARG", arg).replace("$RESOLVED", resolved).replace("$C1", CLASS_OF[f1]).replace("$C2", CLASS_OF[f2]).replace("$C3", CLASS_OF[f3])
    w.lines[k:k] = fill(sc["parse.end." + flavor]).rstrip("\n").split("\n")
    w.lines[ce + 1 : ce + 1] = fill(sc["parse.resolved." + flavor]).replace("$CTX", ctxv).rstrip("\n").split("\n")
    w.lines[i:i] = fill(sc["parse.handover." + flavor]).rstrip("\n").split("\n")
    w.contract(sc["parse.contract." + flavor], ret="r")
    w.body_first(sc["parse.first"])
    w.log["annotations"].append({"fn": w.name, "kind": "proof hints", "count": 4})


def build_pipeline(repo, external=(), canary=None, with_witness=True, boost=False, flavor="C08"):
    b = Build("pipeline")
    log = b.log
    sc = sections(os.path.join(VERIF, "contracts/u7.vrs"))
    sc4 = sections(os.path.join(VERIF, "contracts/u4.vrs"))
    sc5 = sections(os.path.join(VERIF, "contracts/u5.vrs"))
    sc6 = sections(os.path.join(VERIF, "contracts/u6.vrs"))
    if canary and canary[0] != "*calls*":
        sc = dict(sc)
        sc[canary[0] + ".contract." + flavor] = sc[canary[1]]
    parser_rs = Source(repo, "src/parser.rs")
    guard_parser_bindings(parser_rs, repo)
    term_rs = Source(repo, "src/term.rs")
    error_rs = Source(repo, "src/error.rs")
    token_rs = Source(repo, "src/token.rs")
    b.add(RESOLVE_HEADER)
    b.add(read("spec/core_prelude.rs"))
    b.add(read("spec/resolve_prelude.rs"))
    sr = Woven(error_rs, "struct", "SourceRange", log)
    b.add("#[derive(Clone, Copy)]\n" + sr.text())
    b.add("pub mod token {\nuse super::*;\n")
    for kind, name in (("struct", "Token"), ("enum", "Variant"), ("enum", "TerminatorType")):
        b.add(Woven(token_rs, kind, name, log).text())
    b.add("}\nuse token::{TerminatorType, Token};\n")
    t = Woven(term_rs, "struct", "Term", log)
    v = Woven(term_rs, "enum", "Variant", log)
    strip_clippy(v)
    b.add("pub mod term {\nuse super::*;\n")
    b.add(t.text())
    b.add(v.text())
    b.add(CLONE_IMPLS)
    b.add(TERM_VARIANT_IMPORT)
    b.add(read("spec/core_prelude_term.rs"))
    b.add(read("spec/core_spec.rs"))
    b.add(read("spec/resolve_holes.rs"))
    b.add("}\n")
    sv = Woven(parser_rs, "struct", "SourceVariable", log)
    b.add("#[derive(Clone, Copy)]\n" + sv.text())
    b.add(Woven(parser_rs, "struct", "Term", log).text())
    b.add(Woven(parser_rs, "enum", "Variant", log).text())
    b.add(PARSER_CLONE_IMPLS)
    b.add("#[derive(Clone, Copy)]\n" + Woven(parser_rs, "enum", "Nonterminal", log).text())
    for name in ("ProductOrQuotient", "SumOrDifference"):
        b.add(Woven(parser_rs, "enum", name, log).text())
    ph = [l for l in parser_rs.lines if l.startswith("pub const PLACEHOLDER_VARIABLE")]
    if ph != ['pub const PLACEHOLDER_VARIABLE: &str = "_";']:
        raise LostAnchor("src/parser.rs: const PLACEHOLDER_VARIABLE not as expected")
    b.add(ph[0].replace("&str", "&'static str"))
    b.add(read("spec/parser_view.rs"))
    b.add(read("spec/parser_spec.rs"))
    b.add(read("spec/packrat_spec.rs"))
    b.add(read("spec/resolve_spec.rs"))
    b.add(read("spec/resolve_context.rs"))
    b.add(read("spec/resolve_lemmas.rs"))
    cd_spec = read("spec/resolve_defcheck.rs")
    b.add(cd_spec[cd_spec.index("// an upper bound on what `depth` can grow to"):cd_spec.index("// a finite set of indices below n")])      # cd_depth only
    cds = Woven(parser_rs, "fn", "check_definitions", log)
    strip_clippy(cds)
    cds.rewrite_regex("R2-type-substitution", r"source_path: Option<&'a Path>,", "source_path: SourcePath<'a>,", expect=1)
    cds.contract(sc6["check_definitions.contract"] if flavor == "C08" else "    // (no contract in the C07 flavour of this unit)\n")
    ls = cds.lines
    stub = "#[verifier::external_body]\n" + "\n".join(ls[: ls.index("{")]) + "\n{ unimplemented!() }\n"
    b.add(read("spec/pipeline_spec.rs").replace("$CHECK_DEFINITIONS_STUB", stub))
    # the callees, each with the contract it is verified against in its own unit (bodies cut)
    pt = Woven(parser_rs, "fn", "parse_term", log)
    weave_parse_fn(pt, "Term", sc5)
    b.add_fn(pt, external=True)
    ce = Woven(parser_rs, "fn", "collect_error_factories", log)
    m = re.match(r"^fn collect_error_factories<'a>\((\w+): &mut Vec<ErrorFactory<'a>>, (\w+): &Term<'a>\) \{$", ce.lines[0])
    if not m:
        raise LostAnchor("src/parser.rs fn collect_error_factories: signature not as expected")
    ce.contract(sc5["collect.contract"].replace("$OUT", m.group(1)).replace("$TERM", m.group(2)))
    b.add_fn(ce, external=True)
    for fname, key in (("reassociate_applications", "apps"), ("reassociate_products_and_quotients", "muls"), ("reassociate_sums_and_differences", "adds")):
        w = Woven(parser_rs, "fn", fname, log)
        strip_clippy(w)
        w.contract(sc4[key + ".contract"], ret="r")
        b.add_fn(w, external=True)
    rv = Woven(parser_rs, "fn", "resolve_variables", log)
    strip_clippy(rv)
    rv.rewrite_regex("R2-type-substitution", r"context: &mut HashMap<&'a str, usize>,", "context: &mut Context<'a>,", expect=1)
    rv.rewrite_regex("R2-type-substitution", r"source_path: Option<&'a Path>,", "source_path: SourcePath<'a>,", expect=1)
    # C07 says nothing about resolve_variables: there it is a stub without a contract (its preconditions are C08's business)
    rv.contract(sc6["resolve_variables.contract"] if flavor == "C08" else "    // (no contract in the C07 flavour of this unit)\n", ret="r")
    b.add_fn(rv, external=True)
    pa = Woven(parser_rs, "fn", "parse", log)
    weave_parse_full(pa, sc, flavor)
    b.add_fn(pa, external="parse" in external)
    if canary and canary[0] == "*calls*":
        b.add(read("spec/pipeline_witness.rs"))
    b.add("} // verus!\nfn main() {}\n")
    return b


def canaries(unit):
    """fn -> sidecar section holding a deliberately wrong contract (must-fail vacuity guard)."""
    if unit == "core":
        return {fn: fn + ".canary" for fn in ("signed_shift", "unsigned_shift", "open", "free_variables", "is_value", "step", "step_strict")}
    if unit == "parser":
        return {fn: fn + ".canary" for fn in ("reassociate_applications", "reassociate_products_and_quotients", "reassociate_sums_and_differences")}
    if unit == "resolve":
        return {fn: fn + ".canary" for fn in ("resolve_variables", "collect_definitions", "check_definitions")}
    if unit == "conv":
        return {fn: fn + ".canary" for fn in ("syntactically_equal", "normalize_weak_head", "unify")}
    if unit == "packrat":
        # claim that everything is a `group` (and that a group is a `type`): false for every function
        return {}
    return {}


def packrat_canaries(repo):
    return {f: ("Type" if v == "Group" else "Group") for v, f in packrat_functions(repo)}


if __name__ == "__main__":
    import sys, json
    which = sys.argv[3] if len(sys.argv) > 3 else "core"
    b = {"core": build_core, "parser": build_parser, "packrat": build_packrat, "resolve": build_resolve, "pipeline": build_pipeline}[which](sys.argv[1] if len(sys.argv) > 1 else "/repo")
    dst = sys.argv[2] if len(sys.argv) > 2 else "/var/tmp/gv/core.rs"
    with open(dst, "w") as f:
        f.write(b.text())
    print(dst, b.fn_ranges, len(b.log["rewrites"]), "rewrites")
