"""Extraction and weaving of real gram functions into Verus files.

The verified text is the text of /repo, copied byte for byte, with
  * annotations inserted (contracts, invariants, proof blocks, ghost lets, type
    ascriptions) -- these never change an executable token, and
  * a small fixed list of mechanical rewrites of executable text (rules R1..R20,
    see DESIGN.md 2.2 and 14.3); every application is logged (rule, file, line, before, after).

Anything this module cannot find where the sidecar expects it raises LostAnchor, which
the driver turns into exit 2 (undecided) -- never into an alarm.
"""
import hashlib
import os
import re


class LostAnchor(Exception):
    pass


class Source:
    """One file of /repo, read once per run."""

    def __init__(self, repo, rel):
        self.rel = rel
        self.path = os.path.join(repo, rel)
        try:
            with open(self.path, encoding="utf-8") as f:
                self.lines = f.read().split("\n")
        except OSError as e:
            raise LostAnchor(f"{rel}: cannot read ({e})")

    def item(self, kind, name):
        """Return (first_line_1based, last_line_1based, [lines]) of a column-0 item.

        kind: 'fn' | 'struct' | 'enum'.  The item starts at the line
        `[pub ]kind name` (column 0; preceding attribute lines are reported separately)
        and ends at the first following line that is exactly `}` (rustfmt layout).
        """
        pat = re.compile(r"^(pub(\([a-z]+\))? )?%s %s\b" % (kind, re.escape(name)))
        starts = [i for i, l in enumerate(self.lines) if pat.match(l)]
        # ignore items inside `#[cfg(test)] mod tests` (they are indented, so never match)
        if len(starts) != 1:
            raise LostAnchor(f"{self.rel}: expected exactly one `{kind} {name}` at column 0, found {len(starts)}")
        s = starts[0]
        e = s
        if not self.lines[s].rstrip().endswith("}") or self.lines[s].count("{") != self.lines[s].count("}"):
            e = None
            for j in range(s + 1, len(self.lines)):
                if self.lines[j] == "}":
                    e = j
                    break
                if self.lines[j][:1] not in ("", " ", "}", ")", "/") and not self.lines[j].startswith((")", "where")):
                    # another column-0 item started before we saw the closing brace
                    if re.match(r"^(pub |fn |struct |enum |impl |mod |use |#\[)", self.lines[j]):
                        break
            if e is None:
                raise LostAnchor(f"{self.rel}: no closing brace for `{kind} {name}`")
        attrs = []
        a = s - 1
        while a >= 0 and self.lines[a].startswith("#["):
            attrs.insert(0, self.lines[a])
            a -= 1
        return s + 1, e + 1, list(self.lines[s : e + 1]), attrs


def crate_imports(src):
    """name -> module path, for every leaf of the file's column-0 `use crate::..;` statements (test modules are indented
    and never match)."""
    text = "\n".join(src.lines)
    out = {}
    for m in re.finditer(r"(?m)^use crate::((?:[^;]|\n)*?);", text):
        body = re.sub(r"\s+", "", m.group(1))

        def walk(prefix, t):
            # t is `a::b::{x,y::{z}}` or `a::b::x` or a comma list inside braces
            depth, cur, parts = 0, "", []
            for ch in t:
                if ch == "{":
                    depth += 1
                elif ch == "}":
                    depth -= 1
                if ch == "," and depth == 0:
                    parts.append(cur); cur = ""
                else:
                    cur += ch
            if cur:
                parts.append(cur)
            for part in parts:
                if "{" in part:
                    head, rest = part.split("{", 1)
                    walk(prefix + [x for x in head.split("::") if x], rest[: rest.rindex("}")])
                else:
                    segs = [x for x in part.split("::") if x]
                    if segs:
                        out[segs[-1]] = "::".join(prefix + segs[:-1])

        walk([], body)
    return out


def guard_bindings(src, expected, own=()):
    """The woven copy binds the callees of a function by NAME to the functions under contract.  That is the binding the
    compiler makes only if the file imports each callee from the expected module and does not define an item of that name
    itself (seeded change evade_5 shadowed an import with a private function).  `own`: callee names that ARE defined in this file."""
    imports = crate_imports(src)
    local = set()
    for l in src.lines:
        m = re.match(r"^(?:pub(?:\([a-z]+\))? )?(?:fn|macro_rules!|const|static) (\w+)", l)
        if m:
            local.add(m.group(1))
    for name, module in expected.items():
        if name in own:
            if name not in local:
                raise LostAnchor(f"{src.rel}: `{name}` is expected to be defined in this file")
            if name in imports:
                raise LostAnchor(f"{src.rel}: `{name}` is defined here AND imported from {imports[name]}")
            continue
        if name in local:
            raise LostAnchor(f"{src.rel}: defines its own `{name}`, which shadows the function under contract ({module}::{name}): the woven copy would verify a different callee than the one that runs")
        if imports.get(name) != module:
            raise LostAnchor(f"{src.rel}: `{name}` is expected to be imported from `{module}`, found `{imports.get(name)}`")


def sha(lines):
    return hashlib.sha256("\n".join(lines).encode()).hexdigest()


class Woven:
    """A mutable copy of an extracted item plus a log of what was done to it."""

    def __init__(self, src, kind, name, log):
        self.src = src
        self.kind = kind
        self.name = name
        self.first, self.last, self.lines, self.attrs = src.item(kind, name)
        self.orig_sha = sha(self.lines)
        self.log = log
        log["items"].append(
            {
                "item": f"{kind} {name}",
                "file": src.rel,
                "lines": [self.first, self.last],
                "sha256": self.orig_sha,
                "dropped_attributes": self.attrs,
            }
        )

    # ---- helpers -------------------------------------------------------------------
    def _where(self, idx):
        return f"{self.src.rel}:{self.first + idx} ({self.kind} {self.name})"

    def find(self, regex, nth=1, start=0):
        """Index of the nth (1-based) line matching regex (searched from `start`)."""
        pat = re.compile(regex)
        hits = [i for i in range(start, len(self.lines)) if pat.search(self.lines[i])]
        if len(hits) < nth:
            raise LostAnchor(f"{self.src.rel} {self.kind} {self.name}: anchor /{regex}/ #{nth} not found ({len(hits)} hits)")
        return hits[nth - 1]

    def count_until(self, regex, idx):
        """How many lines up to and including idx match regex (to turn a position into an ordinal)."""
        pat = re.compile(regex)
        return len([1 for l in self.lines[: idx + 1] if pat.search(l)])

    def count(self, regex):
        pat = re.compile(regex)
        return len([1 for l in self.lines if pat.search(l)])

    def block_end(self, idx):
        """Last line of the construct that starts on line idx (rustfmt: the closer sits on
        the first later line with the same indentation)."""
        line = self.lines[idx]
        if not line.rstrip().endswith(("{", "(", "[", "|")) and not line.rstrip().endswith("=>"):
            return idx
        ind = len(line) - len(line.lstrip())
        for j in range(idx + 1, len(self.lines)):
            l = self.lines[j]
            if l.strip() == "":
                continue
            if len(l) - len(l.lstrip()) == ind and l.lstrip()[:1] in "})]":
                return j
            if len(l) - len(l.lstrip()) < ind:
                break
        raise LostAnchor(f"{self._where(idx)}: cannot find the end of the construct starting here")

    # ---- annotation insertions (no executable token changes) -----------------------
    def header_end(self):
        """Index of the line on which the function header ends (the one ending in `{`
        at nesting depth 0 of the signature)."""
        for i, l in enumerate(self.lines):
            if l.rstrip().endswith("{") and (i == 0 or l.startswith(")") or True):
                # first line that ends with `{` -- rustfmt puts the body brace either on the
                # `fn` line or on the `) -> T {` line; `where` clauses do not occur here
                return i
        raise LostAnchor(f"{self.src.rel} fn {self.name}: header end not found")

    def contract(self, text, ret=None, attrs=""):
        """Name the return value and insert requires/ensures/decreases between signature
        and body."""
        h = self.header_end()
        line = self.lines[h]
        assert line.rstrip().endswith("{")
        head = line.rstrip()[:-1].rstrip()
        m = re.search(r"-> (.*)$", head)
        if ret is not None:
            if not m:
                raise LostAnchor(f"{self.src.rel} fn {self.name}: expected a return type")
            head = head[: m.start()] + f"-> ({ret}: {m.group(1)})"
        elif m:
            raise LostAnchor(f"{self.src.rel} fn {self.name}: unexpected return type")
        new = [head] + text.rstrip("\n").split("\n") + ["{"]
        self.lines[h : h + 1] = new
        if attrs:
            self.lines[0:0] = attrs.rstrip("\n").split("\n")
        self.log["annotations"].append({"fn": self.name, "kind": "contract"})

    def body_first(self, text):
        h = self.find(r"^\{$")
        self.lines[h + 1 : h + 1] = text.rstrip("\n").split("\n")
        self.log["annotations"].append({"fn": self.name, "kind": "body-first"})

    def before(self, regex, text, nth=1):
        i = self.find(regex, nth)
        self.lines[i:i] = text.rstrip("\n").split("\n")
        self.log["annotations"].append({"fn": self.name, "kind": "proof-before", "anchor": regex, "nth": nth})

    def after(self, regex, text, nth=1):
        i = self.block_end(self.find(regex, nth))
        self.lines[i + 1 : i + 1] = text.rstrip("\n").split("\n")
        self.log["annotations"].append({"fn": self.name, "kind": "proof-after", "anchor": regex, "nth": nth})

    def for_invariant(self, nth, iter_name, text, regex=r"^\s*for .* in .* \{$"):
        """`for PAT in EXPR {`  ->  `for PAT in <iter_name>: EXPR invariant ... {`"""
        i = self.find(regex, nth)
        m = re.match(r"^(\s*for .* in )(.*) \{$", self.lines[i])
        if not m:
            raise LostAnchor(f"{self._where(i)}: not a single-line for header")
        new = [m.group(1) + iter_name + ": " + m.group(2)] + text.rstrip("\n").split("\n") + [" " * (len(m.group(1)) - len(m.group(1).lstrip())) + "{"]
        self.lines[i : i + 1] = new
        self.log["annotations"].append({"fn": self.name, "kind": "loop-invariant", "loop": nth})

    def while_invariant(self, nth, text, regex=r"^\s*while .* \{$"):
        i = self.find(regex, nth)
        line = self.lines[i].rstrip()[:-1].rstrip()
        ind = " " * (len(line) - len(line.lstrip()))
        self.lines[i : i + 1] = [line] + text.rstrip("\n").split("\n") + [ind + "{"]
        self.log["annotations"].append({"fn": self.name, "kind": "loop-invariant", "loop": nth})

    def ascribe(self, regex, ty, nth=1):
        """`let mut v = vec![];` -> `let mut v: TY = vec![];` (type annotation only)."""
        i = self.find(regex, nth)
        m = re.match(r"^(\s*let (mut )?\w+)( = .*)$", self.lines[i])
        if not m:
            raise LostAnchor(f"{self._where(i)}: cannot ascribe a type here")
        self.lines[i] = m.group(1) + ": " + ty + m.group(3)
        self.log["annotations"].append({"fn": self.name, "kind": "type-ascription", "anchor": regex})

    # ---- logged rewrites of executable text ----------------------------------------
    def rewrite_lines(self, rule, i, j, new_lines, note=""):
        before = self.lines[i : j + 1]
        self.lines[i : j + 1] = new_lines
        self.log["rewrites"].append(
            {
                "rule": rule,
                "site": self._where(i),
                "before": "\n".join(before),
                "after": "\n".join(new_lines),
                "note": note,
            }
        )

    def rewrite_regex(self, rule, regex, repl, expect=None, note=""):
        """Apply re.sub line by line; `expect` = exact number of lines that must change."""
        pat = re.compile(regex)
        n = 0
        for i, l in enumerate(self.lines):
            new = pat.sub(repl, l)
            if new != l:
                n += 1
                self.log["rewrites"].append({"rule": rule, "site": self._where(i), "before": l, "after": new, "note": note})
                self.lines[i] = new
        if expect is not None and n != expect:
            raise LostAnchor(f"{self.src.rel} {self.kind} {self.name}: rule {rule} /{regex}/ matched {n} lines, sidecar expects {expect}")
        return n

    def bind_tail(self, regex, var, proof_text, nth=1, pre_text=None):
        """R7: tail expression `E` (a whole construct starting on the anchor line) ->
        `let VAR = E; proof { .. } VAR`.  Evaluation order and value are unchanged."""
        i = self.find(regex, nth)
        j = self.block_end(i)
        ind = " " * (len(self.lines[i]) - len(self.lines[i].lstrip()))
        body = self.lines[i : j + 1]
        new = []
        if pre_text:
            new += pre_text.rstrip("\n").split("\n")
        new.append(ind + f"let {var} = " + body[0].lstrip())
        new += body[1:-1]
        last = body[-1] if len(body) > 1 else None
        if last is not None:
            if last.rstrip().endswith(","):
                raise LostAnchor(f"{self._where(j)}: tail expression expected, found an argument")
            new.append(last.rstrip() + ";")
        else:
            new[-1] = new[-1].rstrip() + ";"
        new += proof_text.rstrip("\n").split("\n")
        new.append(ind + var)
        self.rewrite_lines("R7-bind-tail", i, j, new, note="tail expression bound to a local so that a proof block can follow it")

    def text(self):
        return "\n".join(self.lines)


def sections(path):
    """Read a sidecar file made of `//@@ name` sections; returns {name: text}."""
    out = {}
    cur = None
    with open(path, encoding="utf-8") as f:
        for line in f.read().split("\n"):
            m = re.match(r"^//@@ (\S+)\s*$", line)
            if m:
                cur = m.group(1)
                if cur in out:
                    raise ValueError(f"{path}: duplicate section {cur}")
                out[cur] = []
            elif cur is not None:
                out[cur].append(line)
    return {k: "\n".join(v).rstrip("\n") + "\n" for k, v in out.items()}
