"""Optional witness search (DESIGN.md 2.5): after the verifier has reported a failed obligation, try to find a
concrete small input on which the REAL function (copied from the current /repo tree) disagrees with an
executable transcription of the spec functions (witness/src/reference.rs).  Bounded random differential testing;
after a failed obligation it never decides anything: if it finds nothing the violation is still reported, with
`no-failing-input-found`.  Second role (stand_in): when a run on a changed tree ends UNDECIDED, the same tests may turn it
into a violation with a concrete input; they can never turn anything into a pass."""
import json
import os
import shutil
import subprocess
import tempfile

MODULES = ["error", "format", "token", "term", "de_bruijn", "evaluator", "normalizer", "equality", "unifier", "parser"]
TARGET_OF = {"step_strict": "step", "evaluate": "step"}
KNOWN = {"signed_shift", "unsigned_shift", "open", "free_variables", "is_value", "step",
         "reassociate_applications", "reassociate_products_and_quotients", "reassociate_sums_and_differences", "packrat_complete", "resolve", "pipeline",
         "normalize_weak_head", "syntactically_equal", "unify", "coherence"}
PACKRAT_COUNT = 25000   # each case runs an exhaustive derivation search over grammar.y: about 1 ms


def build(repo, verif, scratch):
    src = os.path.join(scratch, "src")
    os.makedirs(src)
    shutil.copy(os.path.join(verif, "witness", "Cargo.toml"), scratch)
    shutil.copy(os.path.join(repo, "Cargo.lock"), scratch)
    for f in ("main.rs", "reference.rs", "grammar.rs"):
        shutil.copy(os.path.join(verif, "witness", "src", f), src)
    for m in MODULES:
        shutil.copy(os.path.join(repo, "src", m + ".rs"), src)
    with open(os.path.join(src, "parser.rs"), "a") as f, open(os.path.join(verif, "witness", "parser_hooks.rs.txt")) as h:
        f.write(h.read())
    env = dict(os.environ, CARGO_NET_OFFLINE="true", CARGO_TARGET_DIR=os.path.join(scratch, "target"))
    r = subprocess.run(["cargo", "build", "--offline", "--release", "--quiet"], cwd=scratch, env=env, capture_output=True, text=True, timeout=600)
    if r.returncode != 0:
        raise RuntimeError("witness crate does not build: " + r.stderr[-600:])
    return os.path.join(scratch, "target", "release", "gram-witness")


def run_targets(binary, targets, seed, count, repo="/repo"):
    for t in targets:
        try:
            cmd = [binary, t, str(seed), str(count)]
            if t.startswith("packrat") or t == "pipeline":
                g = os.path.join(repo, "grammar.y")
                cmd = [binary, t, str(seed), str(min(count, PACKRAT_COUNT)), g if os.path.exists(g) else "/repo/grammar.y"]
            r = subprocess.run(cmd, capture_output=True, text=True, timeout=600)
            if r.returncode < 0 or r.returncode in (134, 139):
                # the REAL code crashed the process (stack overflow / abort cannot be caught in-process): run again with
                # tracing to learn on which input; the reference terminated on it (cases are generated only then)
                r2 = subprocess.run(cmd, capture_output=True, text=True, timeout=600, env=dict(os.environ, GRAM_WITNESS_TRACE="1"))
                last = [l[len("TRACE "):] for l in r2.stderr.split("\n") if l.startswith("TRACE ")]
                if last and (r2.returncode < 0 or r2.returncode in (134, 139)):
                    return {"target": t, "found": True, "input": last[-1], "real": f"the real code crashed the process (exit status {r2.returncode}: stack overflow or abort)",
                            "reference": "the reference terminates on this input"}
                continue
            out = json.loads(r.stdout.strip().split("\n")[-1])
        except Exception:
            continue
        if out.get("found"):
            return out
    return None


def bounded_clauses(prop, repo, verif, seed=1, count=150000):
    """C06 only: the clauses of the property that no contract reaches -- completeness of the conversion check (a term is
    judged equal to every term it reduces to / to every term with the same normal form) and termination on small
    inputs -- get a BOUNDED check on every run: the differential targets of the three functions on `count` random
    cases each.  -> (finding or None, summary dict).  A finding is a concrete input replayed on the real code."""
    if prop != "C06":
        return None, None
    scratch = tempfile.mkdtemp(prefix="gramwit.", dir="/var/tmp")
    try:
        binary = build(repo, verif, scratch)
        targets = ["unify", "normalize_weak_head", "syntactically_equal", "coherence"]
        out = run_targets(binary, targets, seed, count, repo)
        summary = {"targets": targets, "cases_per_target": count, "seed": seed,
                   "bound": "terms of depth <= 3 over every term former, contexts of 8 entries (plain or with let-bound entries), reference normaliser with fuel 400/600; cases on which the reference runs out of fuel are skipped",
                   "what": "coherence: on closed terms whose evaluation terminates, the real evaluate and the real normalize_weak_head end in the same literal / truth value (C06, first sentence, on the real code -- bounded evidence for what the proof derives from the ASSUMED confluence axiom); unify: true only if the erased normal forms agree (also proved), true if they agree (completeness: bounded evidence only), context restored; normalize_weak_head / syntactically_equal: equal to the reference; no crash of the real code"}
        if not out:
            return None, summary
        return {
            "summary": f"{out['input']}  ->  real code: {out['real']}   reference semantics: {out['reference']}",
            "target": out["target"], "seed": seed, "count": count,
            "input": out["input"], "real": out["real"], "reference": out["reference"],
            "stand_in": True,
            "method": "BOUNDED check of the clauses of C06 that no contract reaches (completeness of the conversion check, termination on small inputs): random differential test of the real functions against witness/src/reference.rs",
        }, summary
    finally:
        shutil.rmtree(scratch, ignore_errors=True)


def search(prop, failed, repo, verif, seed=1, count=300000):
    targets = []
    for f in failed:
        t = TARGET_OF.get(f.get("function"), f.get("function"))
        if f.get("name", "").startswith("packrat/") or (f.get("name", "").startswith("pipeline/") and prop == "C07"):
            # any obligation of the recogniser unit (or of the parse() glue): real parse_term / parse() vs the derivations of grammar.y
            t = "packrat_complete"
        if f.get("name", "").startswith("pipeline/") and prop == "C08":
            t = "pipeline"
        if f.get("name", "").startswith("resolve/"):
            # any obligation of the resolution unit: real resolve_variables vs the transcription of resolve / scoped
            t = "resolve"
        if f.get("function") in ("check_definitions", "check_definition"):
            # the definition-order check runs inside parse(): the whole pipeline on random sentences
            t = "pipeline"
        if t in KNOWN and t not in targets:
            targets.append(t)
        if f.get("name", "").startswith("pipeline/") and prop == "C07" and "pipeline" not in targets:
            # the glue of parse(): also the whole pipeline (final tree against derivation + reference passes)
            targets.append("pipeline")
    if not targets:
        return None
    scratch = tempfile.mkdtemp(prefix="gramwit.", dir="/var/tmp")
    try:
        binary = build(repo, verif, scratch)
        out = run_targets(binary, targets, seed, count, repo)
        if not out:
            return None
        return {
            "summary": f"{out['input']}  ->  real code: {out['real']}   reference semantics: {out['reference']}",
            "target": out["target"], "seed": seed, "count": count,
            "input": out["input"], "real": out["real"], "reference": out["reference"],
            "method": "bounded random differential test of the real function (copied from /repo's working tree) against witness/src/reference.rs (resolve unit: random named trees with names a, b, c, _ and random initial contexts; packrat unit: random sentences of grammar.y and near misses, real parse_term / parse() against an exhaustive derivation search over /repo/grammar.y, witness/src/grammar.rs); auxiliary, never decides",
        }
    finally:
        shutil.rmtree(scratch, ignore_errors=True)


def replay(witness, repo, verif):
    """Re-run the recorded search on the current tree; returns the new finding or None."""
    scratch = tempfile.mkdtemp(prefix="gramwit.", dir="/var/tmp")
    try:
        binary = build(repo, verif, scratch)
        return run_targets(binary, [witness["target"]], witness.get("seed", 1), witness.get("count", 300000), repo)
    finally:
        shutil.rmtree(scratch, ignore_errors=True)


def sanity(repo, verif, targets, seed=1, count=100000):
    """Thorough tier: (a) the real functions agree with the executable reference on `count` random inputs each on
    the CURRENT tree, (b) the assumed num-bigint contract holds on a grid of operands.  Bounded tests, reported in
    the evidence as such; a disagreement here means the transcription or an assumption is off, not that a proof
    failed, so it never produces a VIOLATION (the caller turns it into exit 2)."""
    scratch = tempfile.mkdtemp(prefix="gramwit.", dir="/var/tmp")
    out = {}
    try:
        binary = build(repo, verif, scratch)
        todo = list(targets) + ["bigint_contract"]
        if "resolve_variables" in targets:
            todo.append("resolve")
            todo.append("pipeline")
        if any(t.startswith("parse_") for t in targets):
            # recogniser unit: soundness/tree AND (not covered by any contract) completeness, on random sentences + near misses
            todo.append("packrat_complete")
        for t in todo:
            t2 = TARGET_OF.get(t, t)
            if t2 not in KNOWN and t2 != "bigint_contract":
                continue
            try:
                cmd = [binary, t2, str(seed), str(count)]
                if t2.startswith("packrat") or t2 == "pipeline":
                    g = os.path.join(repo, "grammar.y")
                    cmd = [binary, t2, str(seed), str(PACKRAT_COUNT), g if os.path.exists(g) else "/repo/grammar.y"]
                r = subprocess.run(cmd, capture_output=True, text=True, timeout=900)
                out[t2] = json.loads(r.stdout.strip().split("\n")[-1])
            except Exception as e:
                out[t2] = {"error": repr(e)}
        return out
    finally:
        shutil.rmtree(scratch, ignore_errors=True)


def stand_in(prop, fns, units_undecided, repo, verif, seed=1, count=300000):
    """Bounded stand-in for a run that ended UNDECIDED (lost anchor, unsupported construct, resource limit): the same
    differential tests, run for every function of the property that has a target.  A disagreement is a concrete input
    on which the real code of the current tree violates what the contract states; nothing found means nothing."""
    targets = []
    for f in fns:
        t = TARGET_OF.get(f, f)
        if f.startswith("parse_") or f in ("parse", "collect_error_factories", "error_term"):
            t = "packrat_complete" if prop == "C07" else None
        if f in ("resolve_variables", "collect_definitions"):
            t = "resolve"
        if t in KNOWN and t not in targets:
            targets.append(t)
    if prop in ("C07", "C08") and "parse" in fns:
        targets.append("pipeline")
    if not targets:
        return None
    scratch = tempfile.mkdtemp(prefix="gramwit.", dir="/var/tmp")
    try:
        binary = build(repo, verif, scratch)
        out = run_targets(binary, targets, seed, count, repo)
        if not out:
            return None
        return {
            "summary": f"{out['input']}  ->  real code: {out['real']}   reference semantics: {out['reference']}",
            "target": out["target"], "seed": seed, "count": count,
            "input": out["input"], "real": out["real"], "reference": out["reference"],
            "stand_in": True,
            "method": "BOUNDED stand-in (the proof run was undecided): random differential test of the real functions (copied from /repo's working tree) against the executable transcription of the spec functions (witness/src/reference.rs, grammar.rs); targets tried: " + ", ".join(targets),
        }
    except Exception:
        return None
    finally:
        shutil.rmtree(scratch, ignore_errors=True)
