"""Unit U8 (C06): conv.rs = everything of core.rs with the U1/U2 functions cut down to their contracts
+ spec/conv_spec.rs + the real equality::syntactically_equal, normalizer::normalize_weak_head, unifier::unify.
"""
import os
import re

import units as U
from weave import LostAnchor, Source, Woven, sections, guard_bindings

VERIF = U.VERIF
CORE_FNS = ["signed_shift", "unsigned_shift", "open", "free_variables", "is_value", "step", "step_strict", "evaluate"]
CONV_FNS = ["syntactically_equal", "normalize_weak_head", "unify"]


def indent_of(line):
    return len(line) - len(line.lstrip())


def hole_read(w, start, end, var="subterm"):
    """R9 inside lines [start, end]: `{ VAR.borrow().clone() }` -> `hole_content(VAR)`; returns the number of sites."""
    n = 0
    for k in range(start, end + 1):
        new = re.sub(r"\{ (\w+)\.borrow\(\)\.clone\(\) \}", r"hole_content(\1)", w.lines[k])
        new = re.sub(r"(?<![\w.])(\w+)\.borrow\(\)\.clone\(\)", r"hole_content(\1)", new)
        if new != w.lines[k]:
            w.log["rewrites"].append({"rule": "R9-hole-read", "site": w._where(k), "before": w.lines[k], "after": new, "note": "RefCell read + clone as a stub with the assumed frozen-content contract"})
            w.lines[k] = new
            n += 1
    return n


def generic_map_or_else(w, i):
    """R10: rustfmt layout
           RECV.map_or_else(
               || {            (or `|| EXPR,`)
                   A
               },
               |x| {
                   B
               },
           )
       -> match RECV { None => { A } Some(x) => { B } }"""
    m = re.match(r"^(\s*)(.*)\.map_or_else\($", w.lines[i])
    if not m:
        raise LostAnchor(f"{w._where(i)}: expected `RECV.map_or_else(`")
    ind, recv = m.group(1), m.group(2)
    j = w.block_end(i)
    tail = w.lines[j].strip()
    if not tail.startswith(")"):
        raise LostAnchor(f"{w._where(j)}: expected the end of map_or_else")
    a = i + 1
    m1 = re.match(r"^(\s*)\|\| (.*)$", w.lines[a])
    if not m1:
        raise LostAnchor(f"{w._where(a)}: expected `|| ..`")
    ae = w.block_end(a)
    if not w.lines[ae].rstrip().endswith(","):
        raise LostAnchor(f"{w._where(ae)}: expected the end of the first closure")
    b = ae + 1
    m2 = re.match(r"^(\s*)\|(\w+)\| \{$", w.lines[b])
    if not m2:
        raise LostAnchor(f"{w._where(b)}: expected `|x| {{`")
    be = w.block_end(b)
    if w.lines[be].strip() != "}," or be + 1 != j:
        raise LostAnchor(f"{w._where(be)}: expected the end of the second closure")
    ind2 = m1.group(1)
    first = [ind2 + "None => " + m1.group(2)] + w.lines[a + 1 : ae + 1]
    new = [ind + "match " + recv + " {"] + first + [ind2 + "Some(" + m2.group(2) + ") => {"] + w.lines[b + 1 : be] + [ind2 + "}", ind + "}" + tail[1:]]
    w.rewrite_lines("R10-map-or-else", i, j, new, note="Option::map_or_else with two closures as the equivalent match")


def insert_at(w, idx, text, kind="proof-block", anchor=""):
    w.lines[idx:idx] = text.rstrip("\n").split("\n")
    w.log["annotations"].append({"fn": w.name, "kind": kind, "anchor": anchor})


def arm(w, regex, start=0, nth=1):
    i = w.find(regex, nth, start)
    return i, w.block_end(i)


# ---------------------------------------------------------------------------------------------------
def weave_syntactically_equal(w, sc):
    w.contract(sc["syntactically_equal.contract"], ret="r", attrs="#[verifier::exec_allows_no_decreases_clause]")
    w.body_first(sc["syntactically_equal.first"])
    for which in ("term1", "term2"):
        i = w.find(r"^    let mut %s = %s\.clone\(\);$" % (which, which))
        insert_at(w, i, sc["syntactically_equal.pre"].replace("$T", which), anchor=f"let mut {which}")
        k = w.find(r"^    loop \{$", 1, i)
        ke = w.block_end(k)
        if hole_read(w, k, ke) != 1:
            raise LostAnchor(f"{w._where(k)}: expected exactly one hole read in the loop that follows unifiers in {which}")
        w.lines[k : k + 1] = ["    loop"] + sc["syntactically_equal.loop"].replace("$T", which).rstrip("\n").split("\n") + ["    {"] + sc["syntactically_equal.loop.body"].replace("$T", which).rstrip("\n").split("\n")
        w.log["annotations"].append({"fn": w.name, "kind": "loop-invariant", "loop": which})
    # the arm for two unresolved holes compares cell identity: through a stub (R9); dead under the precondition
    n = w.rewrite_regex("R9-hole-identity", r"Rc::ptr_eq\((\w+), (\w+)\)", r"hole_ptr_eq(\1, \2)", note="pointer identity of two hole cells through a stub without contract (the arm is unreachable under the precondition: no unresolved hole)")
    if n != 1:
        raise LostAnchor(f"{w.src.rel} fn {w.name}: expected one Rc::ptr_eq site, found {n}")
    U.rewrite_bigint_ops(w)
    # R4 (variant): `A.iter().zip(B.iter()).fold(INIT, |ACC, (PA, PB)| { BODY })` -> index loop over the shorter length
    i = w.find(r"^\s*(&& )?(\w+)\.iter\(\)\.zip\((\w+)\.iter\(\)\)\.fold\($")
    m = re.match(r"^(\s*)(&& )?(\w+)\.iter\(\)\.zip\((\w+)\.iter\(\)\)\.fold\($", w.lines[i])
    ind, lead, va, vb = m.group(1), m.group(2) or "", m.group(3), m.group(4)
    j = w.block_end(i)
    mt = re.match(r"^\s*\)(.*)$", w.lines[j])
    if not mt or not re.match(r"^\s*(true|false),$", w.lines[i + 1]):
        raise LostAnchor(f"{w._where(i)}: zip/fold shape not as expected")
    init = w.lines[i + 1].strip().rstrip(",")
    m2 = re.match(r"^\s*\|(\w+), \((.*), (\(.*\))\)\| \{$", w.lines[i + 2])
    if not m2:
        raise LostAnchor(f"{w._where(i+2)}: expected `|acc, (PA, PB)| {{`")
    accpat, pa, pb = m2.group(1), m2.group(2), m2.group(3)
    je = w.block_end(i + 2)
    if w.lines[je].strip() != "}," or je + 1 != j:
        raise LostAnchor(f"{w._where(je)}: expected the end of the fold closure")
    body = w.lines[i + 3 : je]
    rep = lambda t: t.replace("$A", va).replace("$B", vb).rstrip("\n").split("\n")
    new = [ind + lead + "({", ind + f"    let mut acc = {init};", ind + f"    let zip_len = if {va}.len() <= {vb}.len() {{ {va}.len() }} else {{ {vb}.len() }};", ind + "    for k in 0..zip_len"] + rep(sc["syntactically_equal.let.loop"]) + [
        ind + "    {", ind + f"        let {pa} = &{va}[k];", ind + f"        let {pb} = &{vb}[k];"] + rep(sc["syntactically_equal.let.body"]) + [
        ind + "        acc = {", ind + f"            let {accpat} = acc;"] + body + [ind + "        };", ind + "    }"] + rep(sc["syntactically_equal.let.after"]) + [ind + "    acc", ind + "})" + mt.group(1)]
    w.rewrite_lines("R4-zip-fold", i, j, new, note="A.iter().zip(B.iter()).fold(init, |acc, (x, y)| BODY) as an index loop over the shorter of the two lengths; BODY, the patterns and the initial value are copied verbatim")
    # hints at the head of the match
    i = w.find(r"^    match \(&term1\.variant, &term2\.variant\) \{$")
    insert_at(w, i, sc["syntactically_equal.match.pre"], anchor="match (&term1.variant, &term2.variant)")
    i_let, _ = arm(w, r"^        \(Let\(definitions1, body1\), Let\(definitions2, body2\)\) => \{$")
    insert_at(w, i_let + 1, sc["syntactically_equal.let.pre"], anchor="Let arm")


def build_conv(repo, external=(), canary=None, with_witness=True, boost=False):
    external = set(external)
    b = U.build_core(repo, external=set(CORE_FNS), with_witness=False)
    b.name = "conv"
    closing = b.chunks.pop()
    assert closing.startswith("} // verus!")
    # core functions are contract-only here: they are verified by the checks of C11 / C02
    for n in CORE_FNS:
        b.fn_ranges.pop(n, None)
    b.fn_names = []
    log = b.log
    log["dropped"].append({"site": "unit conv", "text": "bodies of " + ", ".join(CORE_FNS), "why": "contract-only stubs in this unit; the bodies are verified in unit core (C11, C02)"})
    sc = sections(os.path.join(VERIF, "contracts/u8.vrs"))
    if canary and canary[1]:
        sc = dict(sc)
        sc[canary[0] + ".contract"] = sc[canary[1]]
    b.add(U.read("spec/conv_prelude.rs"))
    b.add(U.read("spec/conv_spec.rs"))
    b.add(U.read("spec/conv_lemmas.rs"))

    eq_rs = Source(repo, "src/equality.rs")
    guard_bindings(eq_rs, {"unsigned_shift": "de_bruijn", "syntactically_equal": ""}, own=("syntactically_equal",))
    se = Woven(eq_rs, "fn", "syntactically_equal", log)
    U.strip_clippy(se)
    weave_syntactically_equal(se, sc)
    no_rs = Source(repo, "src/normalizer.rs")
    guard_bindings(no_rs, {"open": "de_bruijn", "unsigned_shift": "de_bruijn", "normalize_weak_head": ""}, own=("normalize_weak_head",))
    nw = Woven(no_rs, "fn", "normalize_weak_head", log)
    U.strip_clippy(nw)
    weave_normalize(nw, sc)
    un_rs = Source(repo, "src/unifier.rs")
    guard_bindings(un_rs, {"signed_shift": "de_bruijn", "syntactically_equal": "equality", "normalize_weak_head": "normalizer", "unify": ""}, own=("unify",))
    un = Woven(un_rs, "fn", "unify", log)
    U.strip_clippy(un)
    weave_unify(un, sc)
    fns = [se, nw, un]
    for f in fns:
        b.add_fn(f, external=f.name in external)
    if with_witness:
        b.add(U.read("spec/conv_witness.rs"))
    b.add(closing)
    return b


BINARY_KINDS = ["Sum", "Difference", "Product", "Quotient", "LessThan", "LessThanOrEqualTo", "EqualTo", "GreaterThan", "GreaterThanOrEqualTo"]


def normalized_locals(w, i, j):
    """[(line index, local, argument)] of the statements `let X = normalize_weak_head(ARG, definitions_context);` in [i, j]"""
    out = []
    for k in range(i, j + 1):
        m = re.match(r"^\s*let (\w+) = normalize_weak_head\((\w+), definitions_context\);$", w.lines[k])
        if m:
            out.append((k, m.group(1), m.group(2)))
    return out


def itermut_skip_to_index_loop(w, i, sc):
    """R21: `for (P0, P1, P2) in V.iter_mut().skip(S) { *P1 = E1; *P2 = E2; }` ->
    `for j in S..V.len() { let n0 = V[j].0; let new1 = { let P1 = &V[j].1; E1 }; let new2 = { let P2 = &V[j].2; E2 }; V.set(j, (n0, new1, new2)); }`
    (E1 / E2 copied verbatim; refused unless each Ek mentions, of the pattern variables, only its own)."""
    m = re.match(r"^(\s*)for \((\w+), (\w+), (\w+)\) in (\w+)\.iter_mut\(\)\.skip\(([^()]+)\) \{$", w.lines[i])
    if not m:
        raise LostAnchor(f"{w._where(i)}: expected `for (a, b, c) in V.iter_mut().skip(S) {{`")
    ind, p0, p1, p2, vec, skip = m.groups()
    j = w.block_end(i)
    body = [l for l in w.lines[i + 1 : j] if l.strip() and not l.strip().startswith("//")]
    assigns = {}
    for l in body:
        ma = re.match(r"^\s*\*(\w+) = (.*);$", l)
        if not ma or ma.group(1) not in (p1, p2) or ma.group(1) in assigns:
            raise LostAnchor(f"{w._where(i)}: the body of the iter_mut loop must be `*{p1} = ..; *{p2} = ..;` on one line each")
        assigns[ma.group(1)] = ma.group(2)
    if set(assigns) != {p1, p2}:
        raise LostAnchor(f"{w._where(i)}: the iter_mut loop must assign both `{p1}` and `{p2}`")
    for own, other in ((p1, p2), (p2, p1)):
        if re.search(r"\b%s\b" % re.escape(other), assigns[own]):
            raise LostAnchor(f"{w._where(i)}: the new value of `{own}` mentions `{other}`; rule R21 does not apply")
    idx = re.search(r"open\(\w+, (\w+), ", assigns[p1])
    rep = lambda t: t.replace("$NA", "new_" + p1).replace("$ND", "new_" + p2).replace("$IDX", idx.group(1) if idx else "i_index").rstrip("\n").split("\n")
    new = [ind + f"for j in itj: {skip}..{vec}.len()"] + rep(sc["normalize_weak_head.let.subst.loop"]) + [ind + "{"] + rep(sc["normalize_weak_head.let.subst.body"]) + [
        ind + f"    let entry_name = {vec}[j].0;",
        ind + f"    let new_{p1} = {{ let {p1} = &{vec}[j].1; {assigns[p1]} }};",
        ind + f"    let new_{p2} = {{ let {p2} = &{vec}[j].2; {assigns[p2]} }};"] + rep(sc["normalize_weak_head.let.subst.set"]) + [
        ind + f"    {vec}.set(j, (entry_name, new_{p1}, new_{p2}));", ind + "}"]
    w.rewrite_lines("R21-iter-mut-skip", i, j, new, note="in-place update loop over V.iter_mut().skip(S) as an index loop with Vec::set; the two right-hand sides are copied verbatim and each reads only its own old component")


def index_assign_loop(w, i_for, sc):
    """R21 (variant): `for J in S..V.len() { let (P0, P1, P2) = &V[J]; V[J] = (P0, E1, E2); }` -> the same index loop with
    Vec::set that R21 produces (Verus has no IndexMut on Vec); E1 / E2 copied verbatim."""
    cands = [q for q in range(i_for + 1, len(w.lines)) if re.match(r"^\s*for (\w+) in (\w+)\.\.(\w+)\.len\(\) \{$", w.lines[q])]
    if not cands:
        raise LostAnchor(f"{w._where(i_for)}: the in-place substitution loop of the Let arm was not found in a known form")
    i = cands[0]
    m = re.match(r"^(\s*)for (\w+) in (\w+)\.\.(\w+)\.len\(\) \{$", w.lines[i])
    ind, jv, skip, vec = m.groups()
    j = w.block_end(i)
    body = [l.strip() for l in w.lines[i + 1 : j] if l.strip() and not l.strip().startswith("//")]
    text = " ".join(body)
    mm = re.match(r"^let \((\w+), (\w+), (\w+)\) = &%s\[%s\]; %s\[%s\] = \( (\w+), (.*), (Rc::new\(.*\)), \);$" % (vec, jv, vec, jv), text)
    if not mm or mm.group(4) != mm.group(1):
        raise LostAnchor(f"{w._where(i)}: index form of the substitution loop not as expected")
    p0, p1, p2, _, e1, e2 = mm.groups()
    for own, other, e in ((p1, p2, e1), (p2, p1, e2)):
        if re.search(r"\b%s\b" % re.escape(other), e):
            raise LostAnchor(f"{w._where(i)}: the new value of `{own}` mentions `{other}`; rule R21 does not apply")
    idx = re.search(r"open\(\w+, (\w+), ", e1)
    rep = lambda t: t.replace("$NA", "new_" + p1).replace("$ND", "new_" + p2).replace("$IDX", idx.group(1) if idx else "i_index").rstrip("\n").split("\n")
    new = [ind + f"for j in itj: {skip}..{vec}.len()"] + rep(sc["normalize_weak_head.let.subst.loop"]) + [ind + "{"] + rep(sc["normalize_weak_head.let.subst.body"]) + [
        ind + f"    let entry_name = {vec}[j].0;",
        ind + f"    let new_{p1} = {{ let {p1} = &{vec}[j].1; {e1} }};",
        ind + f"    let new_{p2} = {{ let {p2} = &{vec}[j].2; {e2} }};"] + rep(sc["normalize_weak_head.let.subst.set"]) + [
        ind + f"    {vec}.set(j, (entry_name, new_{p1}, new_{p2}));", ind + "}"]
    if jv != "j":
        new = [re.sub(r"\b%s\b" % re.escape(jv), "j", l) if k >= len(new) - 6 else l for k, l in enumerate(new)]
    # a lint attribute in front of the loop is dropped
    a = i - 1 if re.match(r"^\s*#\[allow\(clippy::\w+\)\]$", w.lines[i - 1]) else i
    w.rewrite_lines("R21-index-assign", a, j, new, note="in-place update loop `for j in S..V.len() { let (a, b, c) = &V[j]; V[j] = (a, E1, E2); }` with Vec::set instead of IndexMut; E1 / E2 copied verbatim, each reads only its own old component")


def weave_normalize(w, sc):
    w.contract(sc["normalize_weak_head.contract"], ret="r", attrs="#[verifier::exec_allows_no_decreases_clause]")
    w.body_first(sc["normalize_weak_head.first"])
    # hole arm: R10 + R9
    i, j = arm(w, r"^        Unifier\(subterm, subterm_shift\) => \{$")
    ks = [q for q in range(i, j + 1) if re.match(r"^\s*\{ subterm\.borrow\(\)\.clone\(\) \}\.map_or_else\($", w.lines[q])]
    if ks:
        generic_map_or_else(w, ks[0])      # (an arm that is already written as a `match` needs no R10)
    i, j = arm(w, r"^        Unifier\(subterm, subterm_shift\) => \{$")
    if hole_read(w, i, j) != 1:
        raise LostAnchor(f"{w._where(i)}: expected exactly one hole read in the hole arm")
    insert_at(w, i + 1, sc["normalize_weak_head.hole"], anchor="Unifier arm")
    # variable arm: the context lookup (plain entry: neutral; let-bound entry: the delta rule)
    i, j = arm(w, r"^        Variable\(_, index\) => \{$")
    insert_at(w, i + 1, sc["normalize_weak_head.var"], anchor="Variable arm")
    # R3
    U.rewrite_bigint_ops(w)
    # Quotient: R10 on checked_div(..).map_or_else
    i, j = arm(w, r"^        Quotient\(\w+, \w+\) => \{$")
    ks = [q for q in range(i, j + 1) if re.match(r"^\s*\w+\.checked_div\(\w+\)\.map_or_else\($", w.lines[q])]
    if ks:
        generic_map_or_else(w, ks[0])
    # application
    i, j = arm(w, r"^        Application\(applicand, argument\) => \{$")
    locs = normalized_locals(w, i, j)
    if len(locs) != 1 or locs[0][2] != "applicand":
        raise LostAnchor(f"{w._where(i)}: application arm: expected one `let X = normalize_weak_head(applicand, ..)`")
    insert_at(w, locs[0][0] + 1, sc["normalize_weak_head.app"].replace("$N", locs[0][1]), anchor="after the head is normalised")
    # negation
    i, j = arm(w, r"^        Negation\((\w+)\) => \{$")
    locs = normalized_locals(w, i, j)
    if len(locs) != 1:
        raise LostAnchor(f"{w._where(i)}: negation arm: expected one normalised operand")
    insert_at(w, locs[0][0] + 1, sc["normalize_weak_head.neg"].replace("$N", locs[0][1]).replace("$T", locs[0][2]), anchor="after the operand is normalised")
    # the nine binary arms
    for kind in BINARY_KINDS:
        i, j = arm(w, r"^        %s\((\w+), (\w+)\) => \{$" % kind)
        t1, t2 = re.match(r"^        %s\((\w+), (\w+)\) => \{$" % kind, w.lines[i]).groups()
        locs = normalized_locals(w, i, j)
        if len(locs) != 2:
            raise LostAnchor(f"{w._where(i)}: {kind} arm: expected two normalised operands")
        # the hint speaks about the terms that ARE normalised (if they are not the two operands, in order, the postcondition fails)
        insert_at(w, locs[1][0] + 1, sc["normalize_weak_head.binary"].replace("$KIND", kind).replace("$T1", locs[0][2]).replace("$T2", locs[1][2]).replace("$N1", locs[0][1]).replace("$N2", locs[1][1]), anchor=f"{kind}: after both operands are normalised")
    # conditional
    i, j = arm(w, r"^        If\(condition, then_branch, else_branch\) => \{$")
    locs = normalized_locals(w, i, j)
    if len(locs) != 1 or locs[0][2] != "condition":
        raise LostAnchor(f"{w._where(i)}: conditional arm: expected one `let X = normalize_weak_head(condition, ..)`")
    insert_at(w, locs[0][0] + 1, sc["normalize_weak_head.if"].replace("$N", locs[0][1]), anchor="after the condition is normalised")
    # definition group
    i_let, j_let = arm(w, r"^        Let\(definitions, body\) => \{$")
    k = w.find(r"^\s*let mut definitions = definitions\.clone\(\);$", 1, i_let)
    w.rewrite_lines("R1-clone-definitions", k, k, [w.lines[k].replace("definitions.clone()", "clone_definitions(definitions)")], note="Vec::clone of the definitions through a stub that returns a vector with equal elements")
    insert_at(w, k, sc["normalize_weak_head.let.pre"], anchor="Let arm")
    i_for = w.find(r"^\s*for i in 0\.\.definitions\.len\(\) \{$", 1, i_let)
    j_for = w.block_end(i_for)
    # tail call after the loop
    insert_at(w, j_for + 1, sc["normalize_weak_head.let.after"], anchor="after the substitution loop")
    # body = open(&body, ..)
    k = w.find(r"^\s*body = open\(&body, \w+, &unfolded_definition, 0\);$", 1, i_for)
    insert_at(w, k + 1, sc["normalize_weak_head.let.body.post"], anchor="after the body is substituted")
    insert_at(w, k, sc["normalize_weak_head.let.body.pre"], anchor="before the body is substituted")
    # the in-place substitution loop: `iter_mut().skip(S)` (R21), or already written with indices and `V[j] = (..)`
    ks = [q for q in range(i_for + 1, j_for + 8) if q < len(w.lines) and re.match(r"^\s*for \(\w+, \w+, \w+\) in definitions\.iter_mut\(\)\.skip\([^()]+\) \{$", w.lines[q])]
    if ks:
        itermut_skip_to_index_loop(w, ks[0], sc)
    else:
        index_assign_loop(w, i_for, sc)
    # the unfolding
    U.hoist_argument(w, r"^\s*let unfolded_definition = open\($", r"^\s*&Term \{$", "inserted", sc["normalize_weak_head.let.inserted.post"])
    w.after(r"^\s*let unfolded_definition = open\($", sc["normalize_weak_head.let.unfolded.post"])
    k = w.find(r"^\s*let \(variable, annotation, definition\) = &definitions\[i\];$", 1, i_for)
    insert_at(w, k + 1, sc["normalize_weak_head.let.destructured"], anchor="after the i-th definition is read")
    insert_at(w, i_for + 1, sc["normalize_weak_head.let.body.first"], anchor="loop body start")
    w.for_invariant(1, "it", sc["normalize_weak_head.let.loop"], regex=r"^\s*for i in 0\.\.definitions\.len\(\) \{$")


def weave_unify(w, sc):
    w.contract(sc["unify.contract"], ret="r", attrs="#[verifier::exec_allows_no_decreases_clause]")
    w.body_first(sc["unify.first"])
    # the two weak-head normal forms
    locs = normalized_locals(w, 0, len(w.lines) - 1)
    if len(locs) != 2 or locs[0][2] != "term1" or locs[1][2] != "term2":
        raise LostAnchor(f"{w.src.rel} fn unify: expected `let A = normalize_weak_head(term1, ..); let B = normalize_weak_head(term2, ..);`")
    w1, w2 = locs[0][1], locs[1][1]
    i = w.find(r"^    match \(&%s\.variant, &%s\.variant\) \{$" % (w1, w2))
    insert_at(w, i, sc["unify.match.pre"].replace("$W1", w1).replace("$W2", w2), anchor="before the structural comparison")
    # R9: identity of two unresolved holes (guard of the first arm)
    n = w.rewrite_regex("R9-hole-identity", r"Rc::ptr_eq\((\w+), (\w+)\)", r"hole_ptr_eq(\1, \2)", note="pointer identity of two hole cells through a stub without contract (the arm is unreachable under the precondition)")
    if n != 1:
        raise LostAnchor(f"{w.src.rel} fn unify: expected one Rc::ptr_eq site, found {n}")
    # R6: the two hole-solving arms
    done = 0
    for head in (r"^        \(Unifier\(\w+, \w+\), _\)$", r"^        \(_, Unifier\(\w+, \w+\)\)$"):
        i = w.find(head)
        k = None
        for q in range(i + 1, min(i + 6, len(w.lines))):
            if w.lines[q] == "        {" and w.lines[q - 1].rstrip().endswith("=>"):
                k = q
                break
        if k is None:
            raise LostAnchor(f"{w._where(i)}: hole-solving arm of unify not in the expected shape")
        e = w.block_end(k)
        text = "\n".join(w.lines[k + 1 : e])
        if "borrow_mut()" not in text:
            raise LostAnchor(f"{w._where(k)}: expected the arm that writes the hole cell")
        w.log["dropped"].append({"site": w._where(k + 1), "text": text, "why": "R6: arm that solves an UNRESOLVED hole (occurs check, write through borrow_mut); unreachable under the precondition -- replaced by a call whose precondition is false, so Verus proves it dead"})
        w.rewrite_lines("R6-hole-arm", k + 1, e - 1, ["            dead_hole_arm()"], note="arm body replaced by a call whose precondition is false")
        done += 1
    U.rewrite_bigint_ops(w)


if __name__ == "__main__":
    import sys
    b = build_conv(sys.argv[1] if len(sys.argv) > 1 else "/repo", external=set(sys.argv[3].split(",")) if len(sys.argv) > 3 and sys.argv[3] else ())
    dst = sys.argv[2] if len(sys.argv) > 2 else "/var/tmp/gv/conv.rs"
    os.makedirs(os.path.dirname(dst), exist_ok=True)
    with open(dst, "w") as f:
        f.write(b.text())
    print(dst, b.fn_ranges, len(b.log["rewrites"]), "rewrites")
