"""Unit U8 (C06): conv.rs = everything of core.rs with the U1/U2 functions cut down to their contracts
+ spec/conv_spec.rs + the real equality::syntactically_equal, normalizer::normalize_weak_head, unifier::unify.
"""
import os
import re

import units as U
from weave import LostAnchor, Source, Woven, sections

VERIF = U.VERIF
CORE_FNS = ["signed_shift", "unsigned_shift", "open", "free_variables", "is_value", "step", "step_strict", "evaluate"]
CONV_FNS = ["syntactically_equal", "normalize_weak_head", "unify"]


def indent_of(line):
    return len(line) - len(line.lstrip())


def hole_read(w, start, end, var="subterm"):
    """R9 inside lines [start, end]: `{ VAR.borrow().clone() }` -> `hole_content(VAR)`; returns the number of sites."""
    n = 0
    for k in range(start, end + 1):
        new = re.sub(r"\{ (\w+)\.borrow\(\)\.clone\(\) \}", r"hole_content(\1)", w.lines[k])
        if new != w.lines[k]:
            w.log["rewrites"].append({"rule": "R9-hole-read", "site": w._where(k), "before": w.lines[k], "after": new, "note": "RefCell read + clone as a stub with the assumed frozen-content contract"})
            w.lines[k] = new
            n += 1
    return n


def generic_map_or_else(w, i):
    """R10: rustfmt layout
           RECV.map_or_else(
               || {            (or `|| EXPR,`)
                   A
               },
               |x| {
                   B
               },
           )
       -> match RECV { None => { A } Some(x) => { B } }"""
    m = re.match(r"^(\s*)(.*)\.map_or_else\($", w.lines[i])
    if not m:
        raise LostAnchor(f"{w._where(i)}: expected `RECV.map_or_else(`")
    ind, recv = m.group(1), m.group(2)
    j = w.block_end(i)
    tail = w.lines[j].strip()
    if not tail.startswith(")"):
        raise LostAnchor(f"{w._where(j)}: expected the end of map_or_else")
    a = i + 1
    m1 = re.match(r"^(\s*)\|\| (.*)$", w.lines[a])
    if not m1:
        raise LostAnchor(f"{w._where(a)}: expected `|| ..`")
    ae = w.block_end(a)
    if not w.lines[ae].rstrip().endswith(","):
        raise LostAnchor(f"{w._where(ae)}: expected the end of the first closure")
    b = ae + 1
    m2 = re.match(r"^(\s*)\|(\w+)\| \{$", w.lines[b])
    if not m2:
        raise LostAnchor(f"{w._where(b)}: expected `|x| {{`")
    be = w.block_end(b)
    if w.lines[be].strip() != "}," or be + 1 != j:
        raise LostAnchor(f"{w._where(be)}: expected the end of the second closure")
    ind2 = m1.group(1)
    first = [ind2 + "None => " + m1.group(2)] + w.lines[a + 1 : ae + 1]
    new = [ind + "match " + recv + " {"] + first + [ind2 + "Some(" + m2.group(2) + ") => {"] + w.lines[b + 1 : be] + [ind2 + "}", ind + "}" + tail[1:]]
    w.rewrite_lines("R10-map-or-else", i, j, new, note="Option::map_or_else with two closures as the equivalent match")


def insert_at(w, idx, text, kind="proof-block", anchor=""):
    w.lines[idx:idx] = text.rstrip("\n").split("\n")
    w.log["annotations"].append({"fn": w.name, "kind": kind, "anchor": anchor})


def arm(w, regex, start=0, nth=1):
    i = w.find(regex, nth, start)
    return i, w.block_end(i)


# ---------------------------------------------------------------------------------------------------
def weave_syntactically_equal(w, sc):
    w.contract(sc["syntactically_equal.contract"], ret="r", attrs="#[verifier::exec_allows_no_decreases_clause]")
    w.body_first(sc["syntactically_equal.first"])
    for which in ("term1", "term2"):
        i = w.find(r"^    let mut %s = %s\.clone\(\);$" % (which, which))
        insert_at(w, i, sc["syntactically_equal.pre"].replace("$T", which), anchor=f"let mut {which}")
        k = w.find(r"^    loop \{$", 1, i)
        ke = w.block_end(k)
        if hole_read(w, k, ke) != 1:
            raise LostAnchor(f"{w._where(k)}: expected exactly one hole read in the loop that follows unifiers in {which}")
        w.lines[k : k + 1] = ["    loop"] + sc["syntactically_equal.loop"].replace("$T", which).rstrip("\n").split("\n") + ["    {"] + sc["syntactically_equal.loop.body"].replace("$T", which).rstrip("\n").split("\n")
        w.log["annotations"].append({"fn": w.name, "kind": "loop-invariant", "loop": which})
    # the arm for two unresolved holes compares cell identity: through a stub (R9); dead under the precondition
    n = w.rewrite_regex("R9-hole-identity", r"Rc::ptr_eq\((\w+), (\w+)\)", r"hole_ptr_eq(\1, \2)", note="pointer identity of two hole cells through a stub without contract (the arm is unreachable under the precondition: no unresolved hole)")
    if n != 1:
        raise LostAnchor(f"{w.src.rel} fn {w.name}: expected one Rc::ptr_eq site, found {n}")
    U.rewrite_bigint_ops(w)
    # R4 (variant): `A.iter().zip(B.iter()).fold(INIT, |ACC, (PA, PB)| { BODY })` -> index loop over the shorter length
    i = w.find(r"^\s*(&& )?(\w+)\.iter\(\)\.zip\((\w+)\.iter\(\)\)\.fold\($")
    m = re.match(r"^(\s*)(&& )?(\w+)\.iter\(\)\.zip\((\w+)\.iter\(\)\)\.fold\($", w.lines[i])
    ind, lead, va, vb = m.group(1), m.group(2) or "", m.group(3), m.group(4)
    j = w.block_end(i)
    mt = re.match(r"^\s*\)(.*)$", w.lines[j])
    if not mt or not re.match(r"^\s*(true|false),$", w.lines[i + 1]):
        raise LostAnchor(f"{w._where(i)}: zip/fold shape not as expected")
    init = w.lines[i + 1].strip().rstrip(",")
    m2 = re.match(r"^\s*\|(\w+), \((.*), (\(.*\))\)\| \{$", w.lines[i + 2])
    if not m2:
        raise LostAnchor(f"{w._where(i+2)}: expected `|acc, (PA, PB)| {{`")
    accpat, pa, pb = m2.group(1), m2.group(2), m2.group(3)
    je = w.block_end(i + 2)
    if w.lines[je].strip() != "}," or je + 1 != j:
        raise LostAnchor(f"{w._where(je)}: expected the end of the fold closure")
    body = w.lines[i + 3 : je]
    rep = lambda t: t.replace("$A", va).replace("$B", vb).rstrip("\n").split("\n")
    new = [ind + lead + "({", ind + f"    let mut acc = {init};", ind + f"    let zip_len = if {va}.len() <= {vb}.len() {{ {va}.len() }} else {{ {vb}.len() }};", ind + "    for k in 0..zip_len"] + rep(sc["syntactically_equal.let.loop"]) + [
        ind + "    {", ind + f"        let {pa} = &{va}[k];", ind + f"        let {pb} = &{vb}[k];"] + rep(sc["syntactically_equal.let.body"]) + [
        ind + "        acc = {", ind + f"            let {accpat} = acc;"] + body + [ind + "        };", ind + "    }"] + rep(sc["syntactically_equal.let.after"]) + [ind + "    acc", ind + "})" + mt.group(1)]
    w.rewrite_lines("R4-zip-fold", i, j, new, note="A.iter().zip(B.iter()).fold(init, |acc, (x, y)| BODY) as an index loop over the shorter of the two lengths; BODY, the patterns and the initial value are copied verbatim")
    # hints at the head of the match
    i = w.find(r"^    match \(&term1\.variant, &term2\.variant\) \{$")
    insert_at(w, i, sc["syntactically_equal.match.pre"], anchor="match (&term1.variant, &term2.variant)")
    i_let, _ = arm(w, r"^        \(Let\(definitions1, body1\), Let\(definitions2, body2\)\) => \{$")
    insert_at(w, i_let + 1, sc["syntactically_equal.let.pre"], anchor="Let arm")


def build_conv(repo, external=(), canary=None, with_witness=True, boost=False):
    external = set(external)
    b = U.build_core(repo, external=set(CORE_FNS), with_witness=False)
    b.name = "conv"
    closing = b.chunks.pop()
    assert closing.startswith("} // verus!")
    # core functions are contract-only here: they are verified by the checks of C11 / C02
    for n in CORE_FNS:
        b.fn_ranges.pop(n, None)
    b.fn_names = []
    log = b.log
    log["dropped"].append({"site": "unit conv", "text": "bodies of " + ", ".join(CORE_FNS), "why": "contract-only stubs in this unit; the bodies are verified in unit core (C11, C02)"})
    sc = sections(os.path.join(VERIF, "contracts/u8.vrs"))
    if canary and canary[1]:
        sc = dict(sc)
        sc[canary[0] + ".contract"] = sc[canary[1]]
    b.add(U.read("spec/conv_prelude.rs"))
    b.add(U.read("spec/conv_spec.rs"))
    b.add(U.read("spec/conv_lemmas.rs"))

    eq_rs = Source(repo, "src/equality.rs")
    se = Woven(eq_rs, "fn", "syntactically_equal", log)
    U.strip_clippy(se)
    weave_syntactically_equal(se, sc)
    fns = [se]
    if os.environ.get("CONV_ONLY", "") != "eq":
        no_rs = Source(repo, "src/normalizer.rs")
        nw = Woven(no_rs, "fn", "normalize_weak_head", log)
        U.strip_clippy(nw)
        weave_normalize(nw, sc)
        fns.append(nw)
        if os.environ.get("CONV_ONLY", "") != "norm":
            un_rs = Source(repo, "src/unifier.rs")
            un = Woven(un_rs, "fn", "unify", log)
            U.strip_clippy(un)
            weave_unify(un, sc)
            fns.append(un)
    for f in fns:
        b.add_fn(f, external=f.name in external)
    if with_witness:
        b.add(U.read("spec/conv_witness.rs"))
    b.add(closing)
    return b


def weave_normalize(w, sc):
    raise LostAnchor("normalize_weak_head: weaving not built yet")


def weave_unify(w, sc):
    raise LostAnchor("unify: weaving not built yet")


if __name__ == "__main__":
    import sys
    b = build_conv(sys.argv[1] if len(sys.argv) > 1 else "/repo", external=set(sys.argv[3].split(",")) if len(sys.argv) > 3 and sys.argv[3] else ())
    dst = sys.argv[2] if len(sys.argv) > 2 else "/var/tmp/gv/conv.rs"
    os.makedirs(os.path.dirname(dst), exist_ok=True)
    with open(dst, "w") as f:
        f.write(b.text())
    print(dst, b.fn_ranges, len(b.log["rewrites"]), "rewrites")
