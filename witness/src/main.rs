// Witness search: differential testing of the REAL gram functions (copied from /repo/src into this crate's
// src/ at run time) against src/reference.rs on small generated inputs.
// usage: gram-witness <target> <seed> <count>      prints one JSON object
#![allow(dead_code, unused_imports, unused_macros, clippy::all)]
mod error;
mod format;
mod token;
mod term;
mod de_bruijn;
mod evaluator;
mod normalizer;
mod equality;
mod unifier;
mod parser;
mod reference;
mod grammar;

use num_bigint::BigInt;
use reference::{K, R, Raw};
use std::{collections::{BTreeSet, HashSet}, panic, rc::Rc};
use term::{Term, Variant};

struct Rng(u64);
impl Rng {
    fn next(&mut self) -> u64 { self.0 ^= self.0 << 13; self.0 ^= self.0 >> 7; self.0 ^= self.0 << 17; self.0 }
    fn below(&mut self, n: u64) -> u64 { self.next() % n }
}

fn gen_term(rng: &mut Rng, depth: u32, nvars: u64) -> R {
    let leaf = depth == 0 || rng.below(4) == 0;
    if leaf {
        return match rng.below(7) {
            0 | 1 | 2 => { let n = nvars.max(1) + 2; R::Var(rng.below(n) as usize) }
            3 => R::Node(K::Lit(BigInt::from(rng.below(9) as i64 - 4)), vec![]),
            4 => R::Node(if rng.below(2) == 0 { K::True } else { K::False }, vec![]),
            5 => R::Node(K::Type, vec![]),
            _ => R::Node(K::Integer, vec![]),
        };
    }
    let d = depth - 1;
    match rng.below(16) {
        0 | 1 => R::Node(K::Lambda(rng.below(2) == 0), vec![gen_term(rng, d, nvars), gen_term(rng, d, nvars + 1)]),
        2 => R::Node(K::Pi(false), vec![gen_term(rng, d, nvars), gen_term(rng, d, nvars + 1)]),
        3 | 4 => R::Node(K::App, vec![gen_term(rng, d, nvars), gen_term(rng, d, nvars)]),
        5 | 6 | 7 => {
            let m = rng.below(4);
            let mut kids = vec![];
            for _ in 0..2 * m + 1 { kids.push(gen_term(rng, d, nvars + m)); }
            R::Node(K::Let, kids)
        }
        8 => R::Node(K::Neg, vec![gen_term(rng, d, nvars)]),
        9 => R::Node(K::If, vec![gen_term(rng, d, nvars), gen_term(rng, d, nvars), gen_term(rng, d, nvars)]),
        n => {
            let pick = (n as usize + rng.below(9) as usize) % 9;
            let k = [K::Sum, K::Difference, K::Product, K::Quotient, K::Lt, K::Le, K::EqTo, K::Gt, K::Ge][pick].clone();
            R::Node(k, vec![gen_term(rng, d, nvars), gen_term(rng, d, nvars)])
        }
    }
}

// Wrap some subterms of a real term in RESOLVED holes `Unifier(cell = Some(content), shift)`.  By the hole
// model a resolved hole stands for its content raised by `shift`, so the content stored is the subterm shifted
// DOWN by `shift` when that is possible (otherwise shift 0 is used).
fn add_holes(t: &Term<'static>, rng: &mut Rng) -> Term<'static> {
    let rc = |x: &Rc<Term<'static>>, rng: &mut Rng| Rc::new(add_holes(x, rng));
    let inner_variant = match &t.variant {
        Variant::Lambda(n, i, a, b) => Variant::Lambda(n, *i, rc(a, rng), rc(b, rng)),
        Variant::Pi(n, i, a, b) => Variant::Pi(n, *i, rc(a, rng), rc(b, rng)),
        Variant::Application(a, b) => Variant::Application(rc(a, rng), rc(b, rng)),
        Variant::Negation(a) => Variant::Negation(rc(a, rng)),
        Variant::Sum(a, b) => Variant::Sum(rc(a, rng), rc(b, rng)),
        Variant::Difference(a, b) => Variant::Difference(rc(a, rng), rc(b, rng)),
        Variant::Product(a, b) => Variant::Product(rc(a, rng), rc(b, rng)),
        Variant::Quotient(a, b) => Variant::Quotient(rc(a, rng), rc(b, rng)),
        Variant::LessThan(a, b) => Variant::LessThan(rc(a, rng), rc(b, rng)),
        Variant::LessThanOrEqualTo(a, b) => Variant::LessThanOrEqualTo(rc(a, rng), rc(b, rng)),
        Variant::EqualTo(a, b) => Variant::EqualTo(rc(a, rng), rc(b, rng)),
        Variant::GreaterThan(a, b) => Variant::GreaterThan(rc(a, rng), rc(b, rng)),
        Variant::GreaterThanOrEqualTo(a, b) => Variant::GreaterThanOrEqualTo(rc(a, rng), rc(b, rng)),
        Variant::If(a, b, c) => Variant::If(rc(a, rng), rc(b, rng), rc(c, rng)),
        Variant::Let(defs, body) => Variant::Let(defs.iter().map(|d| (d.0, rc(&d.1, rng), rc(&d.2, rng))).collect(), rc(body, rng)),
        other => other.clone(),
    };
    let rebuilt = Term { source_range: None, variant: inner_variant };
    if rng.below(6) != 0 { return rebuilt; }
    let shift = rng.below(3) as usize;
    // content = rebuilt shifted down by `shift` if possible (so that content raised by shift is rebuilt again)
    match reference::r_shift(&to_r(&rebuilt), 0, -(shift as i64)) {
        Some(_) if !has_hole(&rebuilt) => {
            let content = de_bruijn::signed_shift(&rebuilt, 0, -(shift as isize)).expect("downward shift");
            Term { source_range: None, variant: Variant::Unifier(Rc::new(std::cell::RefCell::new(Some(content))), shift) }
        }
        _ => Term { source_range: None, variant: Variant::Unifier(Rc::new(std::cell::RefCell::new(Some(rebuilt))), 0) },
    }
}

fn has_hole(t: &Term) -> bool {
    let h = |x: &Rc<Term>| has_hole(x);
    match &t.variant {
        Variant::Unifier(_, _) => true,
        Variant::Lambda(_, _, a, b) | Variant::Pi(_, _, a, b) | Variant::Application(a, b) | Variant::Sum(a, b) | Variant::Difference(a, b)
        | Variant::Product(a, b) | Variant::Quotient(a, b) | Variant::LessThan(a, b) | Variant::LessThanOrEqualTo(a, b) | Variant::EqualTo(a, b)
        | Variant::GreaterThan(a, b) | Variant::GreaterThanOrEqualTo(a, b) => h(a) || h(b),
        Variant::Negation(a) => h(a),
        Variant::If(a, b, c) => h(a) || h(b) || h(c),
        Variant::Let(defs, body) => defs.iter().any(|d| h(&d.1) || h(&d.2)) || h(body),
        _ => false,
    }
}

fn size(t: &R) -> usize { match t { R::Var(_) => 1, R::Node(_, k) => 1 + k.iter().map(size).sum::<usize>() } }

fn from_r(t: &R) -> Term<'static> {
    let rc = |t: &R| Rc::new(from_r(t));
    let variant = match t {
        R::Var(i) => Variant::Variable("v", *i),
        R::Node(k, kids) => match k {
            K::Type => Variant::Type,
            K::Integer => Variant::Integer,
            K::Boolean => Variant::Boolean,
            K::True => Variant::True,
            K::False => Variant::False,
            K::Lit(x) => Variant::IntegerLiteral(x.clone()),
            K::Lambda(i) => Variant::Lambda("x", *i, rc(&kids[0]), rc(&kids[1])),
            K::Pi(i) => Variant::Pi("x", *i, rc(&kids[0]), rc(&kids[1])),
            K::App => Variant::Application(rc(&kids[0]), rc(&kids[1])),
            K::Neg => Variant::Negation(rc(&kids[0])),
            K::Sum => Variant::Sum(rc(&kids[0]), rc(&kids[1])),
            K::Difference => Variant::Difference(rc(&kids[0]), rc(&kids[1])),
            K::Product => Variant::Product(rc(&kids[0]), rc(&kids[1])),
            K::Quotient => Variant::Quotient(rc(&kids[0]), rc(&kids[1])),
            K::Lt => Variant::LessThan(rc(&kids[0]), rc(&kids[1])),
            K::Le => Variant::LessThanOrEqualTo(rc(&kids[0]), rc(&kids[1])),
            K::EqTo => Variant::EqualTo(rc(&kids[0]), rc(&kids[1])),
            K::Gt => Variant::GreaterThan(rc(&kids[0]), rc(&kids[1])),
            K::Ge => Variant::GreaterThanOrEqualTo(rc(&kids[0]), rc(&kids[1])),
            K::If => Variant::If(rc(&kids[0]), rc(&kids[1]), rc(&kids[2])),
            K::Let => {
                let m = (kids.len() - 1) / 2;
                Variant::Let((0..m).map(|j| ("d", rc(&kids[j]), rc(&kids[m + j]))).collect(), rc(&kids[2 * m]))
            }
        },
    };
    Term { source_range: None, variant }
}

fn to_r(t: &Term) -> R {
    let r = |t: &Rc<Term>| to_r(t);
    match &t.variant {
        Variant::Unifier(cell, shift) => match &*cell.borrow() {
            // the hole model: a resolved hole stands for its content raised by its shift
            Some(content) => reference::r_shift(&to_r(content), 0, *shift as i64).expect("upward shift"),
            None => R::Node(K::Type, vec![R::Var(usize::MAX)]), // unresolved: never generated
        },
        Variant::Variable(_, i) => R::Var(*i),
        Variant::Type => R::Node(K::Type, vec![]),
        Variant::Integer => R::Node(K::Integer, vec![]),
        Variant::Boolean => R::Node(K::Boolean, vec![]),
        Variant::True => R::Node(K::True, vec![]),
        Variant::False => R::Node(K::False, vec![]),
        Variant::IntegerLiteral(x) => R::Node(K::Lit(x.clone()), vec![]),
        Variant::Lambda(_, i, a, b) => R::Node(K::Lambda(*i), vec![r(a), r(b)]),
        Variant::Pi(_, i, a, b) => R::Node(K::Pi(*i), vec![r(a), r(b)]),
        Variant::Application(a, b) => R::Node(K::App, vec![r(a), r(b)]),
        Variant::Negation(a) => R::Node(K::Neg, vec![r(a)]),
        Variant::Sum(a, b) => R::Node(K::Sum, vec![r(a), r(b)]),
        Variant::Difference(a, b) => R::Node(K::Difference, vec![r(a), r(b)]),
        Variant::Product(a, b) => R::Node(K::Product, vec![r(a), r(b)]),
        Variant::Quotient(a, b) => R::Node(K::Quotient, vec![r(a), r(b)]),
        Variant::LessThan(a, b) => R::Node(K::Lt, vec![r(a), r(b)]),
        Variant::LessThanOrEqualTo(a, b) => R::Node(K::Le, vec![r(a), r(b)]),
        Variant::EqualTo(a, b) => R::Node(K::EqTo, vec![r(a), r(b)]),
        Variant::GreaterThan(a, b) => R::Node(K::Gt, vec![r(a), r(b)]),
        Variant::GreaterThanOrEqualTo(a, b) => R::Node(K::Ge, vec![r(a), r(b)]),
        Variant::If(a, b, c) => R::Node(K::If, vec![r(a), r(b), r(c)]),
        Variant::Let(defs, body) => {
            let mut kids: Vec<R> = defs.iter().map(|d| r(&d.1)).collect();
            kids.extend(defs.iter().map(|d| r(&d.2)));
            kids.push(r(body));
            R::Node(K::Let, kids)
        }
    }
}

fn opt(t: &Option<R>) -> String { t.as_ref().map_or("None".to_owned(), |t| format!("Some {}", reference::show(t))) }

// one test case: returns Some((input description, real, reference)) on disagreement
fn case(target: &str, rng: &mut Rng) -> Option<(String, String, String, usize)> {
    let depth = 1 + rng.below(3) as u32;
    let t = gen_term(rng, depth, 2);
    let c = rng.below(4) as usize;
    let plain_t = from_r(&t);
    let holey = rng.below(3) == 0;
    let real_t = if holey { add_holes(&plain_t, rng) } else { plain_t };
    let tag = if has_hole(&real_t) { " [some subterms wrapped in resolved holes]" } else { "" };
    match target {
        "signed_shift" | "unsigned_shift" => {
            let d = if target == "signed_shift" { rng.below(7) as i64 - 3 } else { rng.below(4) as i64 };
            let want = reference::r_shift(&t, c, d);
            let got = if target == "signed_shift" { de_bruijn::signed_shift(&real_t, c, d as isize).map(|x| to_r(&x)) } else { Some(to_r(&de_bruijn::unsigned_shift(&real_t, c, d as usize))) };
            if got != want { return Some((format!("{target}(term = {}, cutoff = {c}, amount = {d}){tag}", reference::show(&t)), opt(&got), opt(&want), size(&t))); }
        }
        "open" => {
            let ud = 1 + rng.below(2) as u32;
            let u = gen_term(rng, ud, 3);
            let s = rng.below(3) as usize;
            let want = reference::r_open(&t, c, &u, s);
            let got = to_r(&de_bruijn::open(&real_t, c, &from_r(&u), s));
            if got != want { return Some((format!("open(term_to_open = {}, index_to_replace = {c}, term_to_insert = {}, shift_amount = {s}){tag}", reference::show(&t), reference::show(&u)), reference::show(&got), reference::show(&want), size(&t) + size(&u))); }
        }
        "free_variables" => {
            let mut want = BTreeSet::new();
            reference::r_fv(&t, c, &mut want);
            let mut set = HashSet::new();
            term::free_variables(&real_t, c, &mut set);
            let got: BTreeSet<usize> = set.into_iter().collect();
            if got != want { return Some((format!("free_variables(term = {}, cutoff = {c}){tag}", reference::show(&t)), format!("{got:?}"), format!("{want:?}"), size(&t))); }
        }
        "is_value" => {
            let (got, want) = (evaluator::is_value(&real_t), reference::r_value(&t) && !matches!(real_t.variant, Variant::Unifier(_, _)));
            if got != want { return Some((format!("is_value({})", reference::show(&t)), format!("{got}"), format!("{want}"), size(&t))); }
        }
        "step" | "step_strict" | "evaluate" => {
            let want = reference::r_step(&t);
            let got = evaluator::step(&real_t).map(|x| to_r(&x));
            // with holes the code may also make a silent step that only replaces a resolved hole (same view)
            let silent = has_hole(&real_t) && got.as_ref() == Some(&t);
            if got != want && !silent { return Some((format!("step({}){tag}", reference::show(&t)), opt(&got), opt(&want), size(&t))); }
        }
        _ => {}
    }
    None
}

// ---- C06: the real normaliser / syntactic equality / conversion check against the reference ------------------
// a context of 8 entries; with `defs`, some entries are let-bound: (definition, offset) with p + offset <= 8 and the
// definition closed in the prefix of length p + offset (what the type checker pushes for the definitions of a group)
fn gen_ctx(rng: &mut Rng, defs: bool) -> reference::RCtx {
    (0..8usize).map(|p| {
        if !defs || rng.below(3) != 0 { return None; }
        let off = 1 + rng.below((8 - p) as u64) as usize;
        let scope = p + off;
        let dd = 1 + rng.below(2) as u32;
        let d = if scope >= 3 { gen_term(rng, dd, (scope - 2) as u64) } else { R::Node(K::Lit(BigInt::from(rng.below(5) as i64 - 2)), vec![]) };
        Some((d, off))
    }).collect()
}
fn real_ctx(c: &reference::RCtx) -> Vec<Option<(Rc<Term<'static>>, usize)>> {
    c.iter().map(|e| e.as_ref().map(|(d, off)| (Rc::new(from_r(d)), *off))).collect()
}
fn show_ctx(c: &reference::RCtx) -> String {
    if c.iter().all(|e| e.is_none()) { return "8 plain context entries".to_owned(); }
    format!("the context [{}]", c.iter().map(|e| match e { None => "_".to_owned(), Some((d, off)) => format!("{} @{}", reference::show(d), off) }).collect::<Vec<_>>().join(", "))
}
fn same_ctx(a: &[Option<(Rc<Term<'static>>, usize)>], c: &reference::RCtx) -> bool {
    a.len() == c.len() && a.iter().zip(c.iter()).all(|(x, y)| match (x, y) { (None, None) => true, (Some((d, o)), Some((d2, o2))) => o == o2 && to_r(d) == *d2, _ => false })
}

// a variant of t that is often, but not always, equal to it up to erasure
fn perturb(t: &R, rng: &mut Rng) -> R {
    match t {
        R::Var(i) => if rng.below(12) == 0 { R::Var((*i + 1) % 4) } else { t.clone() },
        R::Node(k, kids) => {
            let n = kids.len();
            let mut out: Vec<R> = kids.iter().enumerate().map(|(i, c)| {
                let erased = (matches!(k, K::Lambda(_)) && i == 0) || (*k == K::Let && i < (n - 1) / 2);
                if erased && rng.below(2) == 0 { gen_term(rng, 1, 2) } else { perturb(c, rng) }
            }).collect();
            let k2 = match k {
                K::Lit(x) if rng.below(8) == 0 => K::Lit(-x.clone()),
                K::Lambda(i) if rng.below(10) == 0 => K::Lambda(!*i),
                K::Pi(i) if rng.below(10) == 0 => K::Pi(!*i),
                K::Sum if rng.below(12) == 0 => K::Difference,
                K::Integer if rng.below(6) == 0 => K::Boolean,
                K::Type if rng.below(10) == 0 => K::Integer,
                K::True if rng.below(8) == 0 => K::False,
                K::Ge if rng.below(6) == 0 => K::Gt,
                other => other.clone(),
            };
            if *k != K::Let && n >= 2 && rng.below(10) == 0 { out.swap(n - 2, n - 1); }
            if *k == K::Let && n >= 3 && rng.below(8) == 0 {
                // drop the last definition (groups of different size)
                let m = (n - 1) / 2;
                out.remove(2 * m - 1);
                out.remove(m - 1);
            }
            R::Node(k2, out)
        }
    }
}

fn trace(input: &str) {
    // GRAM_WITNESS_TRACE=1: name every case before the real function runs, so that a crash of the real code (stack overflow
    // aborts the process; it cannot be caught) can be attributed to its input by the driver
    if std::env::var_os("GRAM_WITNESS_TRACE").is_some() { eprintln!("TRACE {input}"); }
}

fn case_conv(target: &str, rng: &mut Rng) -> Option<(String, String, String, usize)> {
    let depth = 1 + rng.below(3) as u32;
    let t = gen_term(rng, depth, 2);
    let plain_t = from_r(&t);
    let holey = rng.below(4) == 0;
    let real_t = if holey { add_holes(&plain_t, rng) } else { plain_t };
    let tag = if has_hole(&real_t) { " [some subterms wrapped in resolved holes]" } else { "" };
    match target {
        "normalize_weak_head" => {
            let mut fuel = 400u32;
            // now and then a DEEP computation (several hundred nested calls of the normaliser): `id (id (.. (id 7)))`
            let (t, real_t, tag) = if rng.below(4000) == 0 {
                let id = R::Node(K::Lambda(false), vec![R::Node(K::Integer, vec![]), R::Var(0)]);
                let mut d = R::Node(K::Lit(BigInt::from(7)), vec![]);
                for _ in 0..(300 + rng.below(200)) { d = R::Node(K::App, vec![id.clone(), d]); }
                fuel = 20000;
                let r = from_r(&d);
                (d, r, " [deep]")
            } else { (t, real_t, tag) };
            let with_defs = rng.below(2) == 0;
            let rctx = gen_ctx(rng, with_defs);
            let want = reference::r_whnf(&t, &rctx, &mut fuel)?;   // skipped when the reference runs out of fuel (possible divergence)
            let mut ctx = real_ctx(&rctx);
            let input = format!("normalize_weak_head({}) under {}{tag}", reference::show(&t), show_ctx(&rctx));
            trace(&input);
            let got = to_r(&normalizer::normalize_weak_head(&real_t, &mut ctx));
            let weight = size(&t) + rctx.iter().map(|e| e.as_ref().map_or(0, |(d, _)| size(d))).sum::<usize>();
            if !same_ctx(&ctx, &rctx) { return Some((input, format!("context of length {}", ctx.len()), "context unchanged".to_owned(), weight)); }
            if got != want { return Some((input, reference::show(&got), reference::show(&want), weight)); }
        }
        "coherence" => {
            // C06, first sentence, on the REAL code (bounded; the proof of this sentence rests on the assumed confluence axiom):
            // a closed term on which the reference evaluation reaches a value within the fuel is evaluated and normalised by the
            // real functions; if both results are ground (an integer literal or a truth value) they must be the same
            // close the term: every free variable becomes a literal
            fn close(t: &R, c: usize) -> R {
                match t {
                    R::Var(i) => if *i >= c { R::Node(K::Lit(BigInt::from((*i - c) as i64 - 1)), vec![]) } else { t.clone() },
                    R::Node(k, kids) => R::Node(k.clone(), kids.iter().enumerate().map(|(i, x)| close(x, c + reference::binds(k, kids.len(), i))).collect()),
                }
            }
            let t = close(&t, 0);
            let real_t = from_r(&t);
            let tag = "";
            let mut cur = t.clone();
            let mut n = 0;
            while let Some(next) = reference::r_step(&cur) { cur = next; n += 1; if n > 200 || size(&cur) > 2000 { return None; } }
            let mut fuel = 2000u32;
            reference::r_whnf(&t, &Vec::new(), &mut fuel)?;
            let input = format!("evaluate / normalize_weak_head({}) in the empty context{tag}", reference::show(&t));
            trace(&input);
            let ground = |r: &R| matches!(r, R::Node(K::Lit(_) | K::True | K::False, _));
            let ev = evaluator::evaluate(&real_t).ok().map(|v| to_r(&v));
            let mut ctx = Vec::new();
            let nw = to_r(&normalizer::normalize_weak_head(&real_t, &mut ctx));
            if let Some(v) = &ev { if ground(v) && ground(&nw) && *v != nw { return Some((input, format!("evaluate: {}, normalize_weak_head: {}", reference::show(v), reference::show(&nw)), "the same ground result".to_owned(), size(&t))); } }
            // a closed term whose evaluation ends in a ground value must also normalise to a ground term (the same one)
            if let Some(v) = &ev { if ground(v) && !ground(&nw) { return Some((input, format!("evaluate: {}, normalize_weak_head: {}", reference::show(v), reference::show(&nw)), "normalisation of a term that evaluates to a literal yields that literal".to_owned(), size(&t))); } }
        }
        "syntactically_equal" => {
            let t2 = if rng.below(4) == 0 { gen_term(rng, depth, 2) } else { perturb(&t, rng) };
            let real_t2 = from_r(&t2);
            let want = reference::r_erase(&t) == reference::r_erase(&t2);
            trace(&format!("syntactically_equal({}, {}){tag}", reference::show(&t), reference::show(&t2)));
            let got = equality::syntactically_equal(&real_t, &real_t2);
            if got != want { return Some((format!("syntactically_equal({}, {}){tag}", reference::show(&t), reference::show(&t2)), format!("{got}"), format!("{want} (equality of the views with annotations erased)"), size(&t) + size(&t2))); }
        }
        "unify" => {
            let mut t2 = if rng.below(5) == 0 { t.clone() } else if rng.below(4) == 0 { gen_term(rng, depth, 2) } else { perturb(&t, rng) };
            if rng.below(4) == 0 {
                // a reduct of t (plain context): "judged equal to any term it reduces to"
                let mut f = 300u32;
                if let Some(w) = reference::r_whnf(&t, &Vec::new(), &mut f) { if rng.below(2) == 0 { t2 = w; } else { let mut f = 300u32; if let Some(n) = reference::r_nf(&t, &Vec::new(), &mut f) { t2 = n; } } }
            }
            let real_t2 = from_r(&t2);
            let (mut f1, mut f2) = (600u32, 600u32);
            let with_defs = rng.below(3) == 0;
            let rctx = gen_ctx(rng, with_defs);
            let n1 = reference::r_nf(&t, &rctx, &mut f1)?;        // both must have a normal form within the fuel, otherwise skipped
            let n2 = reference::r_nf(&t2, &rctx, &mut f2)?;
            let mut ctx = real_ctx(&rctx);
            let input = format!("unify({}, {}) under {}{tag}", reference::show(&t), reference::show(&t2), show_ctx(&rctx));
            trace(&input);
            let got = unifier::unify(&real_t, &real_t2, &mut ctx);
            if !same_ctx(&ctx, &rctx) { return Some((input, format!("{got}, context of length {}", ctx.len()), "context unchanged".to_owned(), size(&t) + size(&t2))); }
            let same_nf = reference::r_erase(&n1) == reference::r_erase(&n2);
            if got && !same_nf { return Some((input, "true".to_owned(), format!("normal forms differ: {} vs {}", reference::show(&n1), reference::show(&n2)), size(&t) + size(&t2))); }
            if !got && reference::r_erase(&t) == reference::r_erase(&t2) { return Some((input, "false".to_owned(), "true (the two terms are equal up to erasure)".to_owned(), size(&t) + size(&t2))); }
            // completeness (NOT covered by any contract: bounded evidence only): terms whose normal forms agree are judged equal
            if !got && same_nf { return Some((input, "false".to_owned(), format!("true: both normalise to {} (completeness of the conversion check)", reference::show(&n1)), size(&t) + size(&t2))); }
        }
        _ => {}
    }
    None
}

fn gen_raw(rng: &mut Rng, depth: u32) -> Raw {
    let group = rng.below(3) == 0;
    if depth == 0 || rng.below(5) == 0 {
        let kind = ["Type", "Variable", "Integer", "IntegerLiteral", "True"][rng.below(5) as usize];
        return Raw { kind: kind.to_owned(), group, kids: vec![] };
    }
    let d = depth - 1;
    let (kind, n) = match rng.below(14) {
        0 | 1 | 2 => ("Application", 2), 3 | 4 => ("Product", 2), 5 => ("Quotient", 2), 6 | 7 => ("Sum", 2), 8 => ("Difference", 2),
        9 => ("Negation", 1), 10 => ("If", 3), 11 => ("Lambda", 1 + rng.below(2) as usize), 12 => ("Let", 2 + rng.below(2) as usize), _ => ("LessThan", 2),
    };
    Raw { kind: kind.to_owned(), group, kids: (0..n).map(|_| gen_raw(rng, d)).collect() }
}

fn raw_size(t: &Raw) -> usize { 1 + t.kids.iter().map(raw_size).sum::<usize>() }

fn case_parser(target: &str, rng: &mut Rng) -> Option<(String, String, String, usize)> {
    let (which, class): (u8, &[&str]) = match target {
        "reassociate_applications" => (0, &["Application"]),
        "reassociate_products_and_quotients" => (1, &["Product", "Quotient"]),
        "reassociate_sums_and_differences" => (2, &["Sum", "Difference"]),
        _ => return None,
    };
    let rd = 2 + rng.below(3) as u32;
    let t = gen_raw(rng, rd);
    let want = reference::show_raw(&reference::p_pass(class, &t), class);
    let got = reference::show_raw(&parser::witness_hooks::run_pass(which, &t), class);
    if got != want { return Some((format!("{target}(None, {})   [x' = parenthesised]", reference::show_raw(&t, &[])), got, want, raw_size(&t))); }
    None
}

// ---- packrat unit: real recogniser vs the derivations of grammar.y -------------------------------------
fn term_name(variant: &str) -> &'static str {
    match variant {
        "Asterisk" => "ASTERISK", "Boolean" => "BOOLEAN", "Colon" => "COLON", "DoubleEquals" => "DOUBLE_EQUALS", "Else" => "ELSE",
        "Equals" => "EQUALS", "False" => "FALSE", "GreaterThan" => "GREATER_THAN", "GreaterThanOrEqualTo" => "GREATER_THAN_OR_EQUAL",
        "Identifier" => "IDENTIFIER", "If" => "IF", "Integer" => "INTEGER", "IntegerLiteral" => "INTEGER_LITERAL", "LeftCurly" => "LEFT_CURLY",
        "LeftParen" => "LEFT_PAREN", "LessThan" => "LESS_THAN", "LessThanOrEqualTo" => "LESS_THAN_OR_EQUAL", "Minus" => "MINUS", "Plus" => "PLUS",
        "RightCurly" => "RIGHT_CURLY", "RightParen" => "RIGHT_PAREN", "Slash" => "SLASH", "Terminator" => "TERMINATOR", "Then" => "THEN",
        "ThickArrow" => "THICK_ARROW", "ThinArrow" => "THIN_ARROW", "True" => "TRUE", "Type" => "TYPE", _ => "?",
    }
}

const CONTEXT: [&str; 3] = ["x", "y", "f"];
const ALL_TERMINALS: [&str; 28] = ["ASTERISK", "BOOLEAN", "COLON", "DOUBLE_EQUALS", "ELSE", "EQUALS", "FALSE", "GREATER_THAN", "GREATER_THAN_OR_EQUAL",
    "IDENTIFIER", "IF", "INTEGER", "INTEGER_LITERAL", "LEFT_CURLY", "LEFT_PAREN", "LESS_THAN", "LESS_THAN_OR_EQUAL", "MINUS", "PLUS", "RIGHT_CURLY",
    "RIGHT_PAREN", "SLASH", "TERMINATOR", "THEN", "THICK_ARROW", "THIN_ARROW", "TRUE", "TYPE"];

// one token of the real type per (terminal, text)
fn make_token(kind: &str, text: &'static str) -> token::Token<'static> {
    use token::{TerminatorType, Variant as V};
    let variant = match kind {
        "ASTERISK" => V::Asterisk, "BOOLEAN" => V::Boolean, "COLON" => V::Colon, "DOUBLE_EQUALS" => V::DoubleEquals, "ELSE" => V::Else,
        "EQUALS" => V::Equals, "FALSE" => V::False, "GREATER_THAN" => V::GreaterThan, "GREATER_THAN_OR_EQUAL" => V::GreaterThanOrEqualTo,
        "IDENTIFIER" => V::Identifier(text), "IF" => V::If, "INTEGER" => V::Integer, "INTEGER_LITERAL" => V::IntegerLiteral(text.parse::<BigInt>().unwrap()),
        "LEFT_CURLY" => V::LeftCurly, "LEFT_PAREN" => V::LeftParen, "LESS_THAN" => V::LessThan, "LESS_THAN_OR_EQUAL" => V::LessThanOrEqualTo,
        "MINUS" => V::Minus, "PLUS" => V::Plus, "RIGHT_CURLY" => V::RightCurly, "RIGHT_PAREN" => V::RightParen, "SLASH" => V::Slash,
        "TERMINATOR" => V::Terminator(if text == ";" { TerminatorType::Semicolon } else { TerminatorType::LineBreak }), "THEN" => V::Then,
        "THICK_ARROW" => V::ThickArrow, "THIN_ARROW" => V::ThinArrow, "TRUE" => V::True, "TYPE" => V::Type, other => panic!("terminal {other}"),
    };
    token::Token { source_range: error::SourceRange { start: 0, end: 0 }, variant }
}

fn show_full(t: &Raw) -> String {
    let g = if t.group { "'" } else { "" };
    if t.kids.is_empty() { format!("{}{}", t.kind, g) } else { format!("({}{} {})", t.kind, g, t.kids.iter().map(show_full).collect::<Vec<_>>().join(" ")) }
}

fn case_packrat(g: &grammar::Grammar, rng: &mut Rng, completeness: bool) -> Option<(String, String, String, usize)> {
    // a random sentence of grammar.y ...
    let mut syms: Vec<(String, &'static str)> = vec![];
    let budget = 1 + rng.below(4) as u32;
    g.generate("term", budget, &mut |n| rng.below(n), &mut syms);
    if syms.len() > 24 { return None; }
    let mut fresh = 0;
    let mut toks: Vec<(String, String)> = syms.iter().map(|(k, role)| {
        let text = match (k.as_str(), *role) {
            ("IDENTIFIER", "use") => CONTEXT[rng.below(3) as usize].to_owned(),
            ("IDENTIFIER", _) => { fresh += 1; format!("a{fresh}") }
            ("INTEGER_LITERAL", _) => format!("{}", rng.below(10)),
            ("TERMINATOR", _) => if rng.below(2) == 0 { ";".to_owned() } else { "\\n".to_owned() },
            _ => String::new(),
        };
        (k.clone(), text)
    }).collect();
    // ... possibly damaged by one or two token edits (near-miss non-sentences)
    if rng.below(2) == 0 {
        for _ in 0..1 + rng.below(2) {
            let fresh_tok = |rng: &mut Rng| { let k = ALL_TERMINALS[rng.below(28) as usize]; (k.to_owned(), match k { "IDENTIFIER" => "x".to_owned(), "INTEGER_LITERAL" => "7".to_owned(), "TERMINATOR" => ";".to_owned(), _ => String::new() }) };
            let n = toks.len();
            match rng.below(4) {
                0 if n > 1 => { toks.remove(rng.below(n as u64) as usize); }
                1 => { let t = fresh_tok(rng); toks.insert(rng.below(n as u64 + 1) as usize, t); }
                2 if n > 0 => { let t = fresh_tok(rng); toks[rng.below(n as u64) as usize] = t; }
                _ if n > 1 => { let i = rng.below(n as u64 - 1) as usize; toks.swap(i, i + 1); }
                _ => {}
            }
        }
    }
    let kinds: Vec<&str> = toks.iter().map(|(k, _)| k.as_str()).collect();
    let texts: Vec<String> = toks.iter().map(|(_, t)| t.clone()).collect();
    let leaked: Vec<&'static str> = texts.iter().map(|t| &*Box::leak(t.clone().into_boxed_str())).collect();
    let real_tokens: Vec<token::Token<'static>> = kinds.iter().zip(&leaked).map(|(k, t)| make_token(k, t)).collect();
    let mut memo = std::collections::HashMap::new();
    let derivs = g.derive("term", &kinds, 0, kinds.len(), &mut memo);
    let expected: Vec<String> = derivs.iter().map(|d| show_full(&grammar::tree_of(d, &texts))).collect();
    let (raw_ok, raw) = parser::packrat_hooks::raw_parse(&real_tokens);
    let got = show_full(&raw);
    let shown = toks.iter().map(|(k, t)| if t.is_empty() { k.to_lowercase() } else { format!("{}:{}", k.to_lowercase(), t) }).collect::<Vec<_>>().join(" ");
    let size = toks.len();
    if std::env::var("GRAM_WITNESS_SHOW").is_ok() { eprintln!("{} derivations, raw_ok={raw_ok}: [{shown}]", derivs.len()); }
    if derivs.is_empty() {
        if raw_ok { return Some((format!("tokens [{shown}]"), format!("ACCEPTED by parse_term + error check, raw tree {got}"), "not a sentence of grammar.y (no derivation of `term`)".into(), size)); }
        let mut binders = std::collections::HashSet::new();
        let distinct = toks.iter().all(|(k, t)| k != "IDENTIFIER" || CONTEXT.contains(&t.as_str()) || binders.insert(t.clone()));
        if distinct && parser::packrat_hooks::full_parse_ok(&real_tokens, &CONTEXT) { return Some((format!("tokens [{shown}]"), "ACCEPTED by parse()".into(), "not a sentence of grammar.y (no derivation of `term`)".into(), size)); }
        return None;
    }
    if raw_ok {
        if !expected.contains(&got) { return Some((format!("tokens [{shown}]"), format!("raw tree {got}"), format!("derivation of grammar.y: {}", expected.join("  |  ")), size)); }
    } else if completeness {
        return Some((format!("tokens [{shown}]"), "REJECTED by the recogniser stage".into(), format!("a sentence of grammar.y: {}", expected[0]), size));
    }
    None
}

// ---- resolve unit (C08): the real resolve_variables vs the transcription of resolve / scoped -------------------
fn gen_named(rng: &mut Rng, depth: u32) -> Raw {
    const NAMES: [&str; 4] = ["a", "b", "c", "_"];
    let name = |rng: &mut Rng| NAMES[rng.below(4) as usize];
    let leafy = |kind: String| Raw { kind, group: false, kids: vec![] };
    if depth == 0 || rng.below(4) == 0 {
        return match rng.below(6) {
            0 | 1 | 2 | 3 => leafy(format!("Variable({})", name(rng))),
            4 => leafy(format!("IntegerLiteral({})", rng.below(10))),
            _ => leafy("Type".into()),
        };
    }
    let d = depth - 1;
    let node = |kind: String, kids: Vec<Raw>| Raw { kind, group: false, kids };
    match rng.below(10) {
        0 | 1 => { let im = if rng.below(4) == 0 { "implicit" } else { "explicit" }; let x = name(rng);
            if rng.below(2) == 0 { node(format!("Lambda({x},{im})"), vec![gen_named(rng, d), gen_named(rng, d)]) } else { node(format!("Lambda({x},{im})"), vec![gen_named(rng, d)]) } }
        2 => { let x = name(rng); node(format!("Pi({x},explicit)"), vec![gen_named(rng, d), gen_named(rng, d)]) }
        3 | 4 | 5 | 6 => { let x = name(rng);
            let mut l = if rng.below(3) == 0 { node(format!("Let({x})"), vec![gen_named(rng, d), gen_named(rng, d), gen_named(rng, d)]) } else { node(format!("Let({x})"), vec![gen_named(rng, d), gen_named(rng, d)]) };
            l.group = rng.below(4) == 0;   // a parenthesised let (still part of the enclosing group)
            l }
        7 => node("Application".into(), vec![gen_named(rng, d), gen_named(rng, d)]),
        8 => node("Sum".into(), vec![gen_named(rng, d), gen_named(rng, d)]),
        _ => node("If".into(), vec![gen_named(rng, d), gen_named(rng, d), gen_named(rng, d)]),
    }
}

fn case_resolve(rng: &mut Rng) -> Option<(String, String, String, usize)> {
    let rd = 1 + rng.below(4) as u32;
    let t = gen_named(rng, rd);
    // an initial context: some of the names, bound at distinct depths below `depth`
    let mut ctx: Vec<(String, usize)> = vec![];
    for x in ["a", "b", "c"] { if rng.below(3) == 0 { ctx.push((x.to_owned(), ctx.len())); } }
    let depth = ctx.len() + rng.below(2) as usize;
    let env: std::collections::HashMap<String, usize> = ctx.iter().cloned().collect();
    let dom: std::collections::HashSet<String> = ctx.iter().map(|(n, _)| n.clone()).collect();
    let want_scoped = reference::scoped_ref(&t, &dom);
    let want = reference::resolve_ref(&t, &env, depth);
    let (errors, got, after) = parser::resolve_hooks::run(&t, depth, &ctx);
    let input = format!("resolve_variables({}, depth {depth}, context {:?})", show_full(&t), ctx);
    let size = raw_size(&t);
    if (errors == 0) != want_scoped {
        return Some((input, format!("{errors} error(s) reported"), format!("well scoped: {want_scoped}"), size));
    }
    if errors == 0 {
        if got != want { return Some((input, got, want, size)); }
        let mut before = ctx.clone(); before.sort();
        if after != before { return Some((input, format!("context afterwards {after:?}"), format!("context restored {before:?}"), size)); }
    } else if after.iter().any(|(n, d)| env.get(n) != Some(d)) {
        return Some((input, format!("context afterwards {after:?}"), format!("a sub-map of the initial context {ctx:?}"), size));
    }
    None
}

// ---- the whole of parse() (C08 through the pipeline): tokens of a random sentence whose names come from a small pool,
// so that unbound and re-bound names occur; empty initial context.  Reference: derivation of grammar.y -> raw tree ->
// the three reference passes -> scoped_ref / resolve_ref.
fn case_pipeline(g: &grammar::Grammar, rng: &mut Rng) -> Option<(String, String, String, usize)> {
    let mut syms: Vec<(String, &'static str)> = vec![];
    let budget = 1 + rng.below(3) as u32;
    g.generate("term", budget, &mut |n| rng.below(n), &mut syms);
    if syms.len() > 20 { return None; }
    const POOL: [&str; 4] = ["a", "b", "c", "_"];
    let toks: Vec<(String, String)> = syms.iter().map(|(k, _)| {
        let text = match k.as_str() {
            "IDENTIFIER" => POOL[rng.below(4) as usize].to_owned(),
            "INTEGER_LITERAL" => format!("{}", rng.below(10)),
            "TERMINATOR" => ";".to_owned(),
            _ => String::new(),
        };
        (k.clone(), text)
    }).collect();
    let kinds: Vec<&str> = toks.iter().map(|(k, _)| k.as_str()).collect();
    let texts: Vec<String> = toks.iter().map(|(_, t)| t.clone()).collect();
    let leaked: Vec<&'static str> = texts.iter().map(|t| &*Box::leak(t.clone().into_boxed_str())).collect();
    let real_tokens: Vec<token::Token<'static>> = kinds.iter().zip(&leaked).map(|(k, t)| make_token(k, t)).collect();
    let mut memo = std::collections::HashMap::new();
    let derivs = g.derive("term", &kinds, 0, kinds.len(), &mut memo);
    if derivs.len() != 1 { return None; }
    let raw = grammar::tree_of(&derivs[0], &texts);
    let t1 = reference::p_pass(&["Application"], &raw);
    let t2 = reference::p_pass(&["Product", "Quotient"], &t1);
    let t3 = reference::p_pass(&["Sum", "Difference"], &t2);
    let scoped = reference::scoped_ref(&t3, &std::collections::HashSet::new());
    let want = reference::resolve_ref(&t3, &std::collections::HashMap::new(), 0);
    let shown = toks.iter().map(|(k, t)| if t.is_empty() { k.to_lowercase() } else { format!("{}:{}", k.to_lowercase(), t) }).collect::<Vec<_>>().join(" ");
    match parser::packrat_hooks::full_parse_core(&real_tokens) {
        Ok(got) => {
            if !scoped { return Some((format!("parse(tokens [{shown}])"), format!("ACCEPTED, result {got}"), "not well scoped (an unbound or re-bound name): must be rejected".into(), toks.len())); }
            if got != want { return Some((format!("parse(tokens [{shown}])"), got, want, toks.len())); }
            None
        }
        Err(_) => None,   // rejected: by scoping, or by the later definition-order check, which has no reference here
    }
}

// Sanity test (bounded, NOT a proof) of the ASSUMED num-bigint contract used by the proofs: exact + - *, unary
// minus, comparisons, and checked_div = None iff divisor 0, else the quotient truncated toward zero.
fn bigint_contract() -> (u64, Option<String>) {
    let mut n = 0u64;
    let vals: Vec<i128> = vec![0, 1, -1, 2, -2, 3, -3, 7, -7, 10, -10, 99, -100, 1 << 40, -(1 << 40), (1 << 62) + 12345, -((1 << 62) + 12345)];
    for &a in &vals {
        for &b in &vals {
            n += 1;
            let (x, y) = (BigInt::from(a), BigInt::from(b));
            let bad = |what: &str| Some(format!("{what} disagrees for a = {a}, b = {b}"));
            if &x + &y != BigInt::from(a + b) { return (n, bad("+")); }
            if &x - &y != BigInt::from(a - b) { return (n, bad("-")); }
            if &x * &y != BigInt::from(a) * BigInt::from(b) { return (n, bad("*")); }
            if -&x != BigInt::from(-a) { return (n, bad("neg")); }
            if (x < y) != (a < b) || (x <= y) != (a <= b) || (x == y) != (a == b) || (x > y) != (a > b) || (x >= y) != (a >= b) { return (n, bad("comparison")); }
            match x.checked_div(&y) {
                None => if b != 0 { return (n, bad("checked_div None")); },
                Some(q) => if b == 0 || q != BigInt::from(a / b) { return (n, bad("checked_div (truncation toward zero)")); },
            }
        }
    }
    // far beyond 64 bits: (k * d + r) / d == k for 0 <= r < d, and its negation truncates toward zero
    let d = BigInt::from(10).pow(30) + BigInt::from(7);
    let k = BigInt::from(10).pow(45) + BigInt::from(3);
    let r = BigInt::from(10).pow(29);
    let big = &k * &d + &r;
    n += 2;
    if big.checked_div(&d) != Some(k.clone()) { return (n, Some("big positive division".to_owned())); }
    if (-&big).checked_div(&d) != Some(-k) { return (n, Some("big negative division does not truncate toward zero".to_owned())); }
    (n, None)
}

fn main() {
    let args: Vec<String> = std::env::args().collect();
    let target = args.get(1).map_or("step", |s| s.as_str()).to_owned();
    if target == "bigint_contract" {
        let (n, bad) = bigint_contract();
        match bad {
            None => println!("{{\"target\":\"bigint_contract\",\"found\":false,\"tried\":{n},\"panics\":0}}"),
            Some(m) => println!("{{\"target\":\"bigint_contract\",\"found\":true,\"tried\":{n},\"panics\":0,\"input\":\"{m}\",\"real\":\"num-bigint\",\"reference\":\"assumed contract\"}}"),
        }
        return;
    }
    let seed: u64 = args.get(2).and_then(|s| s.parse().ok()).unwrap_or(1);
    let count: u64 = args.get(3).and_then(|s| s.parse().ok()).unwrap_or(200_000);
    let mut rng = Rng(seed.wrapping_mul(0x9E37_79B9_7F4A_7C15) | 1);
    let grammar = if target.starts_with("packrat") || target == "pipeline" { Some(grammar::Grammar::load(args.get(4).map_or("/repo/grammar.y", |s| s.as_str()))) } else { None };
    panic::set_hook(Box::new(|_| {}));
    let mut best: Option<(String, String, String, usize)> = None;
    let mut tried = 0u64;
    let mut panics = 0u64;
    let mut found_at = 0u64;
    for _ in 0..count {
        tried += 1;
        let snapshot = Rng(rng.0);
        let t = target.clone();
        let r = panic::catch_unwind(panic::AssertUnwindSafe(|| {
            let mut local = Rng(snapshot.0);
            let out = if t == "resolve" { case_resolve(&mut local) } else if t == "pipeline" { case_pipeline(grammar.as_ref().unwrap(), &mut local) } else if t.starts_with("packrat") { case_packrat(grammar.as_ref().unwrap(), &mut local, t == "packrat_complete") } else if t.starts_with("reassociate") { case_parser(&t, &mut local) } else if t == "normalize_weak_head" || t == "syntactically_equal" || t == "unify" || t == "coherence" { case_conv(&t, &mut local) } else { case(&t, &mut local) };
            (out, local.0)
        }));
        match r {
            Ok((out, state)) => {
                rng.0 = state;
                if let Some(f) = out { if best.as_ref().map_or(true, |b| f.3 < b.3) { best = Some(f); } }
            }
            Err(_) => { panics += 1; rng.next(); }
        }
        if best.as_ref().map_or(false, |b| b.3 <= 4) { break; }
        // the packrat cases are slow (exhaustive derivation search): once something is found, shrink for a while and stop
        if target.starts_with("packrat") || target == "pipeline" { if best.is_some() { if found_at == 0 { found_at = tried; } else if tried > found_at + 3000 { break; } } }
    }
    let esc = |s: &str| s.replace('\\', "\\\\").replace('"', "\\\"");
    match best {
        Some((input, real, reference, _)) => println!("{{\"target\":\"{}\",\"found\":true,\"tried\":{tried},\"panics\":{panics},\"input\":\"{}\",\"real\":\"{}\",\"reference\":\"{}\"}}", esc(&target), esc(&input), esc(&real), esc(&reference)),
        None => println!("{{\"target\":\"{}\",\"found\":false,\"tried\":{tried},\"panics\":{panics}}}", esc(&target)),
    }
}
