// Independent reference for the packrat unit: a memoised exhaustive derivation finder for the context-free grammar
// read from /repo/grammar.y at run time, the raw tree each derivation denotes, and a random sentence generator.
// Auxiliary (witness search, bounded sanity test, bounded stand-in for undecided runs on changed trees).
use crate::reference::Raw;
use std::collections::HashMap;

pub struct Grammar {
    pub rules: HashMap<String, Vec<Vec<String>>>, // nonterminal -> alternatives -> symbols (UPPER = terminal)
    min_depth: HashMap<String, u32>,
}

#[derive(Clone, Debug)]
pub enum DK {
    Tok(usize), // position in the token sequence
    Sub(D),
}

#[derive(Clone, Debug)]
pub struct D {
    pub nt: String,
    pub alt: usize,
    pub kids: Vec<DK>,
}

pub fn is_terminal(s: &str) -> bool {
    s.chars().all(|c| c.is_ascii_uppercase() || c == '_')
}

impl Grammar {
    pub fn load(path: &str) -> Grammar {
        let text = std::fs::read_to_string(path).expect("grammar.y");
        // strip /* */ comments, keep the part after the first %%
        let mut clean = String::new();
        let mut rest = text.as_str();
        while let Some(a) = rest.find("/*") {
            clean.push_str(&rest[..a]);
            let b = rest[a..].find("*/").map_or(rest.len(), |b| a + b + 2);
            rest = &rest[b..];
        }
        clean.push_str(rest);
        let body = clean.split("%%").nth(1).expect("%% section");
        let mut toks: Vec<String> = vec![];
        for raw in body.split_whitespace() {
            let mut cur = String::new();
            for ch in raw.chars() {
                if ch == ':' || ch == '|' || ch == ';' {
                    if !cur.is_empty() { toks.push(std::mem::take(&mut cur)); }
                    toks.push(ch.to_string());
                } else {
                    cur.push(ch);
                }
            }
            if !cur.is_empty() { toks.push(cur); }
        }
        let mut rules: HashMap<String, Vec<Vec<String>>> = HashMap::new();
        let mut i = 0;
        while i < toks.len() {
            // a rule starts at IDENT ':' (grammar.y omits the ';' after one rule)
            assert!(i + 1 < toks.len() && toks[i + 1] == ":", "rule head expected at {}", toks[i]);
            let head = toks[i].clone();
            i += 2;
            let mut alts = vec![vec![]];
            while i < toks.len() {
                if toks[i] == ";" { i += 1; break; }
                if i + 1 < toks.len() && toks[i + 1] == ":" { break; }
                if toks[i] == "|" { alts.push(vec![]); } else if toks[i] != "%empty" { alts.last_mut().unwrap().push(toks[i].clone()); }
                i += 1;
            }
            rules.insert(head, alts);
        }
        let mut g = Grammar { rules, min_depth: HashMap::new() };
        // minimal derivation depth per nonterminal (fixpoint), used to steer the generator to termination
        loop {
            let mut changed = false;
            for (nt, alts) in &g.rules {
                let mut best: Option<u32> = None;
                for alt in alts {
                    let mut d = Some(0u32);
                    for s in alt {
                        if is_terminal(s) { continue; }
                        d = match (d, g.min_depth.get(s)) { (Some(x), Some(y)) => Some(x.max(*y)), _ => None };
                    }
                    if let Some(x) = d { best = Some(best.map_or(x + 1, |b: u32| b.min(x + 1))); }
                }
                if let Some(b) = best {
                    if g.min_depth.get(nt).map_or(true, |o| b < *o) { g.min_depth.insert(nt.clone(), b); changed = true; }
                }
            }
            if !changed { break; }
        }
        g
    }

    fn alt_depth(&self, alt: &[String]) -> u32 {
        alt.iter().filter(|s| !is_terminal(s)).map(|s| self.min_depth[s]).max().unwrap_or(0) + 1
    }

    // All derivations (capped at 3) of kinds[i..j) from nt.
    pub fn derive(&self, nt: &str, kinds: &[&str], i: usize, j: usize, memo: &mut HashMap<(String, usize, usize), Vec<D>>) -> Vec<D> {
        let key = (nt.to_owned(), i, j);
        if let Some(v) = memo.get(&key) { return v.clone(); }
        memo.insert(key.clone(), vec![]); // cuts (impossible) left recursion
        let mut out = vec![];
        for (a, alt) in self.rules[nt].iter().enumerate() {
            for kids in self.seq(alt, 0, kinds, i, j, memo) {
                out.push(D { nt: nt.to_owned(), alt: a, kids });
                if out.len() >= 3 { break; }
            }
        }
        memo.insert(key, out.clone());
        out
    }

    fn seq(&self, alt: &[String], p: usize, kinds: &[&str], i: usize, j: usize, memo: &mut HashMap<(String, usize, usize), Vec<D>>) -> Vec<Vec<DK>> {
        if p == alt.len() { return if i == j { vec![vec![]] } else { vec![] }; }
        let s = &alt[p];
        let mut out = vec![];
        if is_terminal(s) {
            if i < j && kinds[i] == s {
                for mut rest in self.seq(alt, p + 1, kinds, i + 1, j, memo) { rest.insert(0, DK::Tok(i)); out.push(rest); }
            }
            return out;
        }
        // the remaining symbols need at least one token each if they are terminals
        let need: usize = alt[p + 1..].iter().filter(|x| is_terminal(x)).count();
        if j < i + need { return out; }
        for m in i..=(j - need) {
            let subs = self.derive(s, kinds, i, m, memo);
            if subs.is_empty() { continue; }
            let rests = self.seq(alt, p + 1, kinds, m, j, memo);
            for sub in &subs { for rest in &rests { let mut v = vec![DK::Sub(sub.clone())]; v.extend(rest.iter().cloned()); out.push(v); if out.len() >= 3 { return out; } } }
        }
        out
    }

    // Random derivation -> sequence of (terminal, role) where role says how an IDENTIFIER is used.  `fuel` = how many
    // non-minimal alternatives may still be chosen along a path (the minimal ones walk straight down the ladder).
    pub fn generate(&self, nt: &str, fuel: u32, rnd: &mut dyn FnMut(u64) -> u64, out: &mut Vec<(String, &'static str)>) {
        let alts = &self.rules[nt];
        let min = self.min_depth[nt];
        let pick: Vec<&Vec<String>> = if fuel == 0 { alts.iter().filter(|a| self.alt_depth(a) == min).collect() } else { alts.iter().collect() };
        let alt = pick[rnd(pick.len() as u64) as usize];
        let child_fuel = if self.alt_depth(alt) == min { fuel } else { fuel - 1 };
        for s in alt {
            if is_terminal(s) {
                let role = if s == "IDENTIFIER" { if nt == "variable" { "use" } else { "bind" } } else { "" };
                out.push((s.clone(), role));
            } else {
                self.generate(s, child_fuel, rnd, out);
            }
        }
    }
}

// ---- the raw tree a derivation denotes (what the statement of C07 calls "the tree it specifies", before the
// re-association of chains) ----------------------------------------------------------------------------
pub fn leaf(kind: String) -> Raw { Raw { kind, group: false, kids: vec![] } }

pub fn tree_of(d: &D, text: &[String]) -> Raw {
    let sub = |k: usize| -> Raw { match &d.kids[k] { DK::Sub(x) => tree_of(x, text), DK::Tok(_) => panic!("sub expected") } };
    let tok = |k: usize| -> String { match &d.kids[k] { DK::Tok(p) => text[*p].clone(), DK::Sub(_) => panic!("token expected") } };
    let node = |kind: String, kids: Vec<Raw>| Raw { kind, group: false, kids };
    match d.nt.as_str() {
        "term" | "atom" | "small_term" | "medium_term" | "large_term" | "huge_term" | "giant_term" | "jumbo_term" => sub(0),
        "type" => leaf("Type".into()),
        "variable" => leaf(format!("Variable({})", tok(0))),
        "integer" => leaf("Integer".into()),
        "integer_literal" => leaf(format!("IntegerLiteral({})", tok(0))),
        "boolean" => leaf("Boolean".into()),
        "true" => leaf("True".into()),
        "false" => leaf("False".into()),
        "lambda" => node(format!("Lambda({},explicit)", tok(0)), vec![sub(2)]),
        "lambda_implicit" => node(format!("Lambda({},implicit)", tok(1)), vec![sub(4)]),
        "annotated_lambda" => node(format!("Lambda({},explicit)", tok(1)), vec![sub(3), sub(6)]),
        "annotated_lambda_implicit" => node(format!("Lambda({},implicit)", tok(1)), vec![sub(3), sub(6)]),
        "pi" => node(format!("Pi({},explicit)", tok(1)), vec![sub(3), sub(6)]),
        "pi_implicit" => node(format!("Pi({},implicit)", tok(1)), vec![sub(3), sub(6)]),
        "non_dependent_pi" => node("Pi(_,explicit)".into(), vec![sub(0), sub(2)]),
        "application" => node("Application".into(), vec![sub(0), sub(1)]),
        "let" => {
            let ann = match &d.kids[1] { DK::Sub(a) if !a.kids.is_empty() => Some(match &a.kids[1] { DK::Sub(x) => tree_of(x, text), _ => panic!() }), _ => None };
            let mut kids = vec![];
            if let Some(a) = ann { kids.push(a); }
            kids.push(sub(3));
            kids.push(sub(5));
            node(format!("Let({})", tok(0)), kids)
        }
        "negation" => node("Negation".into(), vec![sub(1)]),
        "sum" => node("Sum".into(), vec![sub(0), sub(2)]),
        "difference" => node("Difference".into(), vec![sub(0), sub(2)]),
        "product" => node("Product".into(), vec![sub(0), sub(2)]),
        "quotient" => node("Quotient".into(), vec![sub(0), sub(2)]),
        "less_than" => node("LessThan".into(), vec![sub(0), sub(2)]),
        "less_than_or_equal_to" => node("LessThanOrEqualTo".into(), vec![sub(0), sub(2)]),
        "equal_to" => node("EqualTo".into(), vec![sub(0), sub(2)]),
        "greater_than" => node("GreaterThan".into(), vec![sub(0), sub(2)]),
        "greater_than_or_equal_to" => node("GreaterThanOrEqualTo".into(), vec![sub(0), sub(2)]),
        "if" => node("If".into(), vec![sub(1), sub(3), sub(5)]),
        "group" => { let mut t = sub(1); t.group = true; t }
        other => panic!("no tree for nonterminal {other}"),
    }
}
