// Executable transcription of the spec functions of /verif/spec (s_shift, s_open, s_has_fv, s_value, s_step,
// p_pass).  NOT part of any proof and not trusted for verdicts.
use num_bigint::BigInt;
use std::collections::BTreeSet;

#[derive(Clone, PartialEq, Eq, Debug)]
pub enum K {
    Type, Lambda(bool), Pi(bool), App, Let, Integer, Lit(BigInt), Neg,
    Sum, Difference, Product, Quotient, Lt, Le, EqTo, Gt, Ge, Boolean, True, False, If,
}

#[derive(Clone, PartialEq, Eq, Debug)]
pub enum R {
    Var(usize),
    Node(K, Vec<R>),
}

pub fn show(t: &R) -> String {
    match t {
        R::Var(i) => format!("#{i}"),
        R::Node(k, kids) => {
            let name = match k {
                K::Lit(x) => format!("{x}"),
                K::Lambda(i) => format!("lam{}", if *i { "!" } else { "" }),
                K::Pi(i) => format!("pi{}", if *i { "!" } else { "" }),
                other => format!("{other:?}").to_lowercase(),
            };
            if kids.is_empty() { name } else { format!("({} {})", name, kids.iter().map(show).collect::<Vec<_>>().join(" ")) }
        }
    }
}

pub fn binds(k: &K, n: usize, i: usize) -> usize {
    match k {
        K::Lambda(_) | K::Pi(_) => usize::from(i == 1),
        K::Let => (n - 1) / 2,
        _ => 0,
    }
}

pub fn r_shift(t: &R, c: usize, d: i64) -> Option<R> {
    match t {
        R::Var(i) => {
            if *i >= c {
                let n = *i as i64 + d;
                if n >= c as i64 { Some(R::Var(n as usize)) } else { None }
            } else {
                Some(t.clone())
            }
        }
        R::Node(k, kids) => {
            let mut out = vec![];
            for (i, kid) in kids.iter().enumerate() {
                out.push(r_shift(kid, c + binds(k, kids.len(), i), d)?);
            }
            Some(R::Node(k.clone(), out))
        }
    }
}

pub fn r_open(t: &R, j: usize, u: &R, s: usize) -> R {
    match t {
        R::Var(i) => {
            if *i == j { r_shift(u, 0, s as i64).expect("upward shift") } else if *i > j { R::Var(i - 1) } else { t.clone() }
        }
        R::Node(k, kids) => R::Node(
            k.clone(),
            kids.iter().enumerate().map(|(i, kid)| { let b = binds(k, kids.len(), i); r_open(kid, j + b, u, s + b) }).collect(),
        ),
    }
}

pub fn r_fv(t: &R, c: usize, out: &mut BTreeSet<usize>) {
    match t {
        R::Var(i) => { if *i >= c { out.insert(i - c); } }
        R::Node(k, kids) => { for (i, kid) in kids.iter().enumerate() { r_fv(kid, c + binds(k, kids.len(), i), out); } }
    }
}

pub fn r_value(t: &R) -> bool {
    matches!(t, R::Node(K::Type | K::Lambda(_) | K::Pi(_) | K::Integer | K::Lit(_) | K::Boolean | K::True | K::False, _))
}

fn is_binary(k: &K) -> bool {
    matches!(k, K::App | K::Sum | K::Difference | K::Product | K::Quotient | K::Lt | K::Le | K::EqTo | K::Gt | K::Ge)
}

fn lit(x: BigInt) -> R { R::Node(K::Lit(x), vec![]) }
fn boolean(b: bool) -> R { R::Node(if b { K::True } else { K::False }, vec![]) }
fn lit_of(t: &R) -> Option<&BigInt> { if let R::Node(K::Lit(x), _) = t { Some(x) } else { None } }

fn trunc_div(a: &BigInt, b: &BigInt) -> BigInt { a / b } // num-bigint truncates toward zero

fn r_prim(k: &K, a: &R, b: &R) -> Option<R> {
    if *k == K::App {
        return match a {
            R::Node(K::Lambda(_), ks) if ks.len() == 2 => Some(r_open(&ks[1], 0, b, 0)),
            _ => None,
        };
    }
    let (x, y) = (lit_of(a)?, lit_of(b)?);
    match k {
        K::Sum => Some(lit(x + y)),
        K::Difference => Some(lit(x - y)),
        K::Product => Some(lit(x * y)),
        K::Quotient => if *y == BigInt::from(0) { None } else { Some(lit(trunc_div(x, y))) },
        K::Lt => Some(boolean(x < y)),
        K::Le => Some(boolean(x <= y)),
        K::EqTo => Some(boolean(x == y)),
        K::Gt => Some(boolean(x > y)),
        K::Ge => Some(boolean(x >= y)),
        _ => None,
    }
}

fn r_let_subst(kids: &[R], m: usize) -> R {
    let v = R::Var(0);
    let raise1 = |t: &R| r_shift(t, 0, 1).expect("upward shift");
    let a1 = r_open(&raise1(&kids[0]), m, &v, 0);
    let d1 = r_open(&raise1(&kids[m]), m, &v, 0);
    let w = R::Node(K::Let, vec![a1, d1, v]);
    let u = r_open(&kids[m], m - 1, &w, 0);
    let new: Vec<R> = (0..2 * m - 1).map(|i| r_open(&kids[if i < m - 1 { i + 1 } else { i + 2 }], m - 1, &u, 0)).collect();
    R::Node(K::Let, new)
}

pub fn r_step(t: &R) -> Option<R> {
    let R::Node(k, kids) = t else { return None };
    if is_binary(k) && kids.len() == 2 {
        if let Some(a1) = r_step(&kids[0]) { return Some(R::Node(k.clone(), vec![a1, kids[1].clone()])); }
        if !r_value(&kids[0]) { return None; }
        if let Some(b1) = r_step(&kids[1]) { return Some(R::Node(k.clone(), vec![kids[0].clone(), b1])); }
        if !r_value(&kids[1]) { return None; }
        r_prim(k, &kids[0], &kids[1])
    } else if *k == K::Neg && kids.len() == 1 {
        if let Some(a1) = r_step(&kids[0]) { return Some(R::Node(K::Neg, vec![a1])); }
        lit_of(&kids[0]).map(|x| lit(-x))
    } else if *k == K::If && kids.len() == 3 {
        if let Some(c1) = r_step(&kids[0]) { return Some(R::Node(K::If, vec![c1, kids[1].clone(), kids[2].clone()])); }
        match &kids[0] { R::Node(K::True, _) => Some(kids[1].clone()), R::Node(K::False, _) => Some(kids[2].clone()), _ => None }
    } else if *k == K::Let && kids.len() % 2 == 1 {
        let m = (kids.len() - 1) / 2;
        if m == 0 { return Some(kids[0].clone()); }
        if let Some(d1) = r_step(&kids[m]) { let mut nk = kids.clone(); nk[m] = d1; return Some(R::Node(K::Let, nk)); }
        if !r_value(&kids[m]) { return None; }
        Some(r_let_subst(kids, m))
    } else {
        None
    }
}

// ---- C06: reference weak-head normaliser, full normaliser and erasure (written from the rules of the reference
// relation: beta with an unevaluated argument, unfolding of a whole definition group, primitives on literals) ----
pub type RCtx = Vec<Option<(R, usize)>>;

// delta: a let-bound context entry (definition, offset) at position p = len - 1 - i unfolds to the definition raised
// by i + 1 - offset
fn r_delta(ctx: &RCtx, i: usize) -> Option<R> {
    if i >= ctx.len() { return None; }
    match &ctx[ctx.len() - 1 - i] {
        Some((d, off)) if *off <= i + 1 => r_shift(d, 0, (i + 1 - off) as i64),
        _ => None,
    }
}

pub fn r_whnf(t: &R, ctx: &RCtx, fuel: &mut u32) -> Option<R> {
    if *fuel == 0 { return None; }
    *fuel -= 1;
    let R::Node(k, kids) = t else {
        let R::Var(i) = t else { return None };
        return match r_delta(ctx, *i) { Some(u) => r_whnf(&u, ctx, fuel), None => Some(t.clone()) };
    };
    if r_value(t) { return Some(t.clone()); }
    if *k == K::App && kids.len() == 2 {
        let f = r_whnf(&kids[0], ctx, fuel)?;
        return match r_prim(k, &f, &kids[1]) {
            Some(r) => r_whnf(&r, ctx, fuel),
            None => Some(R::Node(K::App, vec![f, kids[1].clone()])),
        };
    }
    if is_binary(k) && kids.len() == 2 {
        let a = r_whnf(&kids[0], ctx, fuel)?;
        let b = r_whnf(&kids[1], ctx, fuel)?;
        return Some(r_prim(k, &a, &b).unwrap_or_else(|| R::Node(k.clone(), vec![a, b])));
    }
    if *k == K::Neg && kids.len() == 1 {
        let a = r_whnf(&kids[0], ctx, fuel)?;
        return Some(match lit_of(&a) { Some(x) => lit(-x), None => R::Node(K::Neg, vec![a]) });
    }
    if *k == K::If && kids.len() == 3 {
        let c = r_whnf(&kids[0], ctx, fuel)?;
        return match &c {
            R::Node(K::True, _) => r_whnf(&kids[1], ctx, fuel),
            R::Node(K::False, _) => r_whnf(&kids[2], ctx, fuel),
            _ => Some(R::Node(K::If, vec![c, kids[1].clone(), kids[2].clone()])),
        };
    }
    if *k == K::Let && kids.len() % 2 == 1 {
        let m = (kids.len() - 1) / 2;
        if m == 0 { return r_whnf(&kids[0], ctx, fuel); }
        if size_of(t) > 4000 { return None; }
        return r_whnf(&r_let_subst(kids, m), ctx, fuel);
    }
    None
}

pub fn size_of(t: &R) -> usize { match t { R::Var(_) => 1, R::Node(_, k) => 1 + k.iter().map(size_of).sum::<usize>() } }

// full normal form: weak-head normalise, then normalise every child under its (plain) binders
pub fn r_nf(t: &R, ctx: &RCtx, fuel: &mut u32) -> Option<R> {
    let w = r_whnf(t, ctx, fuel)?;
    match &w {
        R::Var(_) => Some(w),
        R::Node(k, kids) => {
            let mut out = vec![];
            for (i, c) in kids.iter().enumerate() {
                let mut inner = ctx.clone();
                for _ in 0..binds(k, kids.len(), i) { inner.push(None); }
                out.push(r_nf(c, &inner, fuel)?);
            }
            Some(R::Node(k.clone(), out))
        }
    }
}

// what the conversion check ignores: the annotation of a function parameter, the annotations of a group
pub fn r_erase(t: &R) -> R {
    match t {
        R::Var(_) => t.clone(),
        R::Node(k, kids) => {
            let n = kids.len();
            R::Node(k.clone(), kids.iter().enumerate().map(|(i, c)| {
                let erased = (matches!(k, K::Lambda(_)) && i == 0) || (*k == K::Let && i < (n - 1) / 2);
                if erased { R::Node(K::Type, vec![]) } else { r_erase(c) }
            }).collect())
        }
    }
}

// ---- raw parser trees and the reference left-association ------------------------------------------
#[derive(Clone, PartialEq, Eq, Debug)]
pub struct Raw { pub kind: String, pub group: bool, pub kids: Vec<Raw> }

pub fn show_raw(t: &Raw, class: &[&str]) -> String {
    // group flags of nodes of the class being re-associated are not shown (compared modulo them)
    let g = if t.group && !class.contains(&t.kind.as_str()) { "'" } else { "" };
    if t.kids.is_empty() { format!("{}{}", t.kind, g) } else { format!("({}{} {})", t.kind, g, t.kids.iter().map(|k| show_raw(k, class)).collect::<Vec<_>>().join(" ")) }
}

fn mk(op: &str, a: Raw, b: Raw) -> Raw { Raw { kind: op.to_owned(), group: true, kids: vec![a, b] } }

pub fn p_pass(class: &[&str], t: &Raw) -> Raw {
    if class.contains(&t.kind.as_str()) && t.kids.len() == 2 {
        let (l, r) = (&t.kids[0], &t.kids[1]);
        if class.contains(&r.kind.as_str()) && !r.group { p_tail(class, p_pass(class, l), &t.kind, r) } else { mk(&t.kind, p_pass(class, l), p_pass(class, r)) }
    } else {
        Raw { kind: t.kind.clone(), group: t.group, kids: t.kids.iter().map(|k| p_pass(class, k)).collect() }
    }
}

pub fn p_tail(class: &[&str], acc: Raw, op: &str, t: &Raw) -> Raw {
    if class.contains(&t.kind.as_str()) && t.kids.len() == 2 {
        let (l, r) = (&t.kids[0], &t.kids[1]);
        let acc2 = mk(op, acc, p_pass(class, l));
        if class.contains(&r.kind.as_str()) && !r.group { p_tail(class, acc2, &t.kind, r) } else { mk(&t.kind, acc2, p_pass(class, r)) }
    } else {
        mk(op, acc, p_pass(class, t))
    }
}

// ---- C08: executable transcription of spec/resolve_spec.rs (resolve, scoped) on named raw trees ----------
use std::collections::{HashMap, HashSet};

fn kind_head(k: &str) -> &str { k.split('(').next().unwrap() }
fn kind_inner(k: &str) -> &str { let a = k.find('(').unwrap(); &k[a + 1..k.len() - 1] }
fn is_let(t: &Raw) -> bool { kind_head(&t.kind) == "Let" }

// the chain of nested lets: (name, annotation, definition)*, innermost body
fn let_chain(t: &Raw) -> (Vec<(String, Option<&Raw>, &Raw)>, &Raw) {
    let mut defs = vec![];
    let mut cur = t;
    while is_let(cur) {
        let n = cur.kids.len();
        defs.push((kind_inner(&cur.kind).to_owned(), if n == 3 { Some(&cur.kids[0]) } else { None }, &cur.kids[n - 2]));
        cur = &cur.kids[n - 1];
    }
    (defs, cur)
}

pub fn resolve_ref(t: &Raw, m: &HashMap<String, usize>, d: usize) -> String {
    let bind = |m: &HashMap<String, usize>, x: &str, d: usize| { let mut m2 = m.clone(); if x != "_" { m2.insert(x.to_owned(), d); } m2 };
    match kind_head(&t.kind) {
        "Variable" => { let x = kind_inner(&t.kind); match m.get(x) { Some(e) if *e < d => format!("#{}", d - 1 - e), _ => "?".into() } }
        "Lambda" => { let p: Vec<&str> = kind_inner(&t.kind).split(',').collect(); let im = if p[1] == "implicit" { "!" } else { "" };
            let dom = if t.kids.len() == 2 { resolve_ref(&t.kids[0], m, d) } else { "?".into() };
            format!("(Lambda{im} {dom} {})", resolve_ref(&t.kids[t.kids.len() - 1], &bind(m, p[0], d), d + 1)) }
        "Pi" => { let p: Vec<&str> = kind_inner(&t.kind).split(',').collect(); let im = if p[1] == "implicit" { "!" } else { "" };
            format!("(Pi{im} {} {})", resolve_ref(&t.kids[0], m, d), resolve_ref(&t.kids[1], &bind(m, p[0], d), d + 1)) }
        "Let" => {
            let (defs, body) = let_chain(t);
            let mut m2 = m.clone();
            for (i, (x, _, _)) in defs.iter().enumerate() { m2 = bind(&m2, x, d + i); }
            let d2 = d + defs.len();
            format!("(Let [{}] [{}] {})",
                defs.iter().map(|(_, a, _)| a.map_or("?".to_owned(), |a| resolve_ref(a, &m2, d2))).collect::<Vec<_>>().join(" "),
                defs.iter().map(|(_, _, e)| resolve_ref(e, &m2, d2)).collect::<Vec<_>>().join(" "),
                resolve_ref(body, &m2, d2))
        }
        "IntegerLiteral" => kind_inner(&t.kind).to_owned(),
        head => if t.kids.is_empty() { head.to_owned() } else { format!("({head} {})", t.kids.iter().map(|k| resolve_ref(k, m, d)).collect::<Vec<_>>().join(" ")) },
    }
}

pub fn scoped_ref(t: &Raw, dom: &HashSet<String>) -> bool {
    let fresh = |x: &str, dom: &HashSet<String>| x == "_" || !dom.contains(x);
    let bind = |dom: &HashSet<String>, x: &str| { let mut d = dom.clone(); if x != "_" { d.insert(x.to_owned()); } d };
    match kind_head(&t.kind) {
        "Variable" => { let x = kind_inner(&t.kind); x == "_" || dom.contains(x) }
        "Lambda" => { let x = kind_inner(&t.kind).split(',').next().unwrap().to_owned();
            (t.kids.len() == 1 || scoped_ref(&t.kids[0], dom)) && fresh(&x, dom) && scoped_ref(&t.kids[t.kids.len() - 1], &bind(dom, &x)) }
        "Pi" => { let x = kind_inner(&t.kind).split(',').next().unwrap().to_owned();
            scoped_ref(&t.kids[0], dom) && fresh(&x, dom) && scoped_ref(&t.kids[1], &bind(dom, &x)) }
        "Let" => {
            let (defs, body) = let_chain(t);
            let mut d = dom.clone();
            for (x, _, _) in &defs { if !fresh(x, &d) { return false; } d = bind(&d, x); }
            defs.iter().all(|(_, a, e)| a.map_or(true, |a| scoped_ref(a, &d)) && scoped_ref(e, &d)) && scoped_ref(body, &d)
        }
        _ => t.kids.iter().all(|k| scoped_ref(k, dom)),
    }
}
